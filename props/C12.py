"""C12 - copies are equal to their source and independent of it at the documented depth
(DESIGN 3/C12).

E1: every object of a small universe (trees of U(n) with every combination of decorations,
tree lists, DNA / standard / continuous matrices, namespaces) x every copy route (and every
ordered pair of routes: a copy of a copy) is checked with
  oracle 1  deep snapshot of the copy == deep snapshot of the source (view per route),
  oracle 2  object-graph reachability: the mutable objects reachable from copy and from source
            intersect in exactly the documented shared part,
E2: oracle 3  every mutation of a finite alphabet is applied to the source resp. to the copy of
            a freshly built (source, copy) pair; the other side's snapshot must not change and
            the mutated copy must look exactly like the mutated source.
Nothing in the oracles calls library code except attribute reads of primitive fields."""
import copy
import itertools
import types
import warnings

import dendropy
from dendropy.datamodel import basemodel
from dendropy.datamodel import charmatrixmodel
from dendropy.datamodel import charstatemodel
from dendropy.datamodel.treemodel import Node

from mc import ref, build
from mc import universe as U

ID = "C12"
LEVEL = "model_checking"
EXHAUSTIVE = True
RULE = ("a state = one (object, copy route chain) configuration: object in {every tree of U(n<=N) x rooting x "
        "every subset of the decorations {lengths+labels, comments, annotations (plain, nested, list-valued, "
        "node-valued, attribute-bound), ad-hoc attributes, encoded bipartitions} x namespace layouts; tree lists "
        "of 0-2 (3) member trees incl. the same tree twice; DNA/standard/continuous matrices x decoration subsets; "
        "namespaces of 0-3 taxa x layouts x decorations} x route chain in {deepcopy, clone(0|1|2), copy "
        "constructor, copy constructor with new namespace, copy.copy, taxon_namespace_scoped_copy, extract_tree}^(1|2); "
        "plus every sequence of 2 and 3 copy operations (any route, each applied to the original, to the result of an "
        "earlier step or to the namespace of either) on one small object per kind, the last copy judged; plus degenerate sources x every route and route pair "
        "(objects over an EMPTY namespace: Tree(), a tree of taxon-less nodes, empty TreeList, lists of taxon-less trees, "
        "matrices without rows; single-node trees with / without taxon; a taxon labelled None or ''); plus every sequence of 2-3 copies "
        "(taxon_namespace_scoped_copy(memo=M) | copy.deepcopy(x, M)) of three objects of one namespace sharing one caller-supplied "
        "memo, the namespace optionally growing between copies; "
        "a transition = one mutation of the alphabet (every structural edit at every node, every length / label / "
        "comment / ad-hoc attribute, every annotation add / drop / change / rename / nested add / in-place value "
        "edit on every annotable, re-encoding, every sequence cell / row / subset / type edit, every namespace "
        "edit) applied to a fresh pair on one side; a case = one state or one transition; non-trivial = the object "
        "has at least one member/leaf/taxon")
ASSUMPTIONS = [
    "documented depth per route is taken from DataObject.clone's docstring: clone(0)/copy.copy of a TreeList or "
    "CharacterMatrix share their member trees / sequences (and the namespace); Tree.__copy__, clone(1), the copy "
    "constructors and taxon_namespace_scoped_copy share exactly the namespace and its taxa; deepcopy, clone(2) and a "
    "copy constructor given a new taxon_namespace share nothing",
    "state alphabets and their StateIdentity objects are shared by design by every copy (their __deepcopy__ returns "
    "self) and are excluded from the reachability walk; they are not among the parts the statement lists",
    "the reachability walk follows __dict__, list/tuple/set/dict contents; it does not follow the documented "
    "back-reference 'extraction_source' of extract_tree",
    "equality is demanded for deep and namespace-scoped copies (full deep snapshot; taxon metadata excluded when a new "
    "namespace is supplied because the taxa are re-created by label); for extract_tree only structure, rooting, "
    "labels, lengths and taxa; for documented-shallow copies only label, member identity and annotations",
    "an object whose __dict__ *is* the copy's __dict__ (left behind by the copy constructors) is treated as the copy "
    "itself: attribute-bound annotations owned by it do follow the copy's attributes",
    "an attribute that is not in the harness's table of known fields and whose name starts with an underscore is hidden "
    "implementation state (cache, memo): it is not compared between source and copy nor required to stay unchanged, only "
    "counted (unknown_private_fields_seen); the reachability walk still follows it; unknown public attributes are compared",
    "shared caller-supplied memo: a scoped copy is decided when every earlier use of the memo was a scoped copy of ANOTHER "
    "object (the scoped-copy docstring promises shared namespace/taxa without reservation); a deep copy only when every "
    "earlier use was a deep copy of another object and the namespace did not grow (copy.deepcopy's memo semantics make the "
    "result depend on the memo by design); mixing deep and scoped copies in one memo and copying one object twice with one "
    "memo are undocumented: executed and counted, never decided",
    "mutations shared by design are not applied: taxon / namespace edits for namespace-sharing routes, member-tree / "
    "sequence edits for shallow routes",
]
MANIFEST = {
    "engine": "E1-ENUM + E2-HIST",
    "text": "For every object of the stated universe and every copy route (and pair of routes) the copy is compared "
            "field by field with its source, the sets of mutable objects reachable from both are intersected and "
            "compared with the documented shared part, and every mutation of a finite alphabet is executed on the "
            "real objects on either side of a fresh pair with the other side's deep snapshot compared before/after "
            "and the two mutated sides compared with each other.",
    "note": "snapshots and the reachability walk read primitive fields only; source objects are built through the "
            "public node/annotation API, never through a library copy",
    "technique": "exhaustive small-scope enumeration, object-graph reachability, explicit mutation histories of depth 1 on real objects",
}

FLAGS = ["len", "com", "ann", "extra", "bip"]
TREE_ROUTES = ["deepcopy", "clone0", "clone1", "clone2", "ctor", "ctor_newns", "copy", "nsscoped", "extract"]
COLL_ROUTES = ["deepcopy", "clone0", "clone1", "clone2", "ctor", "ctor_newns", "copy", "nsscoped"]
NS_ROUTES = ["deepcopy", "clone0", "clone1", "clone2", "ctor", "ctor_label", "copy"]


def bounds(tier):
    q = tier == "quick"
    return {
        "E1_trees": {"max_leaves": 4 if q else 5, "all_shapes_of_U(n)": True, "rootings": [True, False, None],
                     "decoration_subsets": 32, "namespace_layouts": ["exact", "extra_low", "removed_low", "sorted_after"],
                     "internal_taxon_and_taxonless_leaf_variant": True, "objects_per_shape": 120, "routes": TREE_ROUTES},
        "E1_copy_of_copy": {"route_pairs": "all ordered pairs", "tree_max_leaves": 3 if q else 4,
                            "tree_decorations": ["none", "ann", "all"], "rootings": [True, False],
                            "other_kinds": "members<=2 / rows in {0,3} / all namespaces, decorations none|ann|all"},
        "E1_tree_lists": {"max_members": 2 if q else 3, "member_pool": 3 if q else 4, "same_tree_twice": True,
                          "decorations": ["none", "all", "ann", "com"], "annotation_bound_to_member": True, "routes": COLL_ROUTES},
        "E1_matrices": {"types": ["dna", "standard", "continuous"], "rows": [0, 1, 3], "columns": 4, "decoration_subsets": 64,
                        "routes": COLL_ROUTES},
        "E1_namespaces": {"taxa": [0, 1, 2, 3], "layouts": ["plain", "removed_low", "sorted_after", "extra_low"],
                          "decoration_subsets": 16, "bitmask_cache": [False, True], "routes": NS_ROUTES},
        "E1_copy_sequences": {"lengths": [2, 3], "routes": "every route of the kind in every position",
                              "sources_per_step": "original | result of an earlier step | namespace of either (distinct objects only)",
                              "objects": [describe(d) for d in SEQ_OBJECTS[tier]], "judged": "last copy of each sequence, all E1 oracles "
                              "+ earlier objects unchanged" + ("" if q else " + probe mutations on either side")},
        "E1_degenerate_sources": {"tree": DEGENERATE["tree"], "treelist": DEGENERATE["treelist"], "matrix": "3 types, no rows, empty namespace",
                                  "ns": DEGENERATE["ns"], "rootings": [True, False, None], "decorations": ["none", "len+com+ann+extra"],
                                  "routes": "every route and every ordered route pair of the kind",
                                  "mutations": "undecorated: whole alphabet; all: namespace-growth probe on both sides"},
        "E1_shared_memo_sequences": {"copies": [2, 3], "objects": "A, B, C (C of A's kind) in one namespace; (A,B) kinds: all 9 pairs of tree/treelist/matrix",
                                     "operations": ["taxon_namespace_scoped_copy(memo=M)", "copy.deepcopy(x, M)"],
                                     "edit_between_copies": "optionally: new taxon in the namespace + a leaf/row carrying it on every object"},
        "E2_mutations": {"depth": 1, "sides": ["source", "copy"],
                         "trees": ("all shapes n<=3 x {rooted, unrooted} x {all decorations, none} + undefined rooting x {ann+bip}; "
                                   "all shapes n=4 rooted, all decorations") if q else
                                  ("all shapes n<=4 x {rooted, unrooted} x {all decorations, none} + undefined rooting x {ann+bip}; "
                                   "all binary shapes n=5 rooted, all decorations"),
                         "tree_lists": "members [], [0], [1,2], [0,0], [0,1]" + ("" if q else ", [2,0,1]") + " x {all decorations, none}",
                         "matrices": "3 types x rows {0,3}" + ("" if q else "+{1}") + " x {all decorations, none}",
                         "namespaces": "taxa {0,1,3} x {plain, removed_low} x {all decorations, none}",
                         "routes": "every route of the kind",
                         "namespace_growth_probe": "on both sides of every mutated pair: new taxon in the namespace + a node/tree/row "
                                                   "carrying it; shared-namespace copies must see the very Taxon in their namespace, "
                                                   "deep copies nothing"},
    }


# ---------------------------------------------------------------------------
# identity table: names the objects of ONE object graph so that references can be
# written into a snapshot without ids

class Ident(object):
    def __init__(self):
        self.by_id = {}
        self.by_dict = {}
        self.alias_hits = 0
        self.private = set()   # (class, attribute) of unknown underscore attributes met (not judged)

    def add(self, obj, name):
        if id(obj) in self.by_id:
            return
        self.by_id[id(obj)] = name
        d = getattr(obj, "__dict__", None)
        if d is not None:
            self.by_dict[id(d)] = name

    def who(self, obj):
        if obj is None:
            return None
        n = self.by_id.get(id(obj))
        if n is not None:
            return n
        d = getattr(obj, "__dict__", None)
        if d is not None and id(d) in self.by_dict:
            self.alias_hits += 1
            return self.by_dict[id(d)]
        return "FOREIGN:" + type(obj).__name__


IMMUT = (int, float, str, bytes, bool, type(None), complex)
NOFOLLOW = (type, types.FunctionType, types.BuiltinFunctionType, types.MethodType, types.ModuleType)
WHITELIST = (charstatemodel.StateAlphabet, charstatemodel.StateIdentity)


def freeze(v, I):
    if isinstance(v, IMMUT):
        return v
    if isinstance(v, WHITELIST):
        return "state:" + str(v)
    if isinstance(v, (list, tuple)):
        return [type(v).__name__] + [freeze(x, I) for x in v]
    if isinstance(v, dict):
        return ["dict"] + sorted(([freeze(k, I), freeze(x, I)] for k, x in v.items()), key=repr)
    if isinstance(v, (set, frozenset)):
        return ["set"] + sorted((freeze(x, I) for x in v), key=repr)
    return "ref:" + I.who(v)


def snap_annotations(obj, I):
    aset = obj.__dict__.get("_annotations")
    if aset is None:
        return []
    out = []
    for a in aset._item_list:
        d = a.__dict__
        ent = {"name": d.get("name"), "prefix": d.get("_name_prefix"), "namespace": d.get("_namespace"),
               "hint": d.get("datatype_hint"), "is_attribute": d.get("is_attribute"),
               "as_reference": d.get("annotate_as_reference"), "hidden": d.get("is_hidden"),
               "format": d.get("real_value_format_specifier"), "sub": snap_annotations(a, I)}
        if d.get("is_attribute"):
            try:
                owner, attr = d["_value"]
                ent["bound_owner"] = I.who(owner)
                ent["bound_attr"] = attr
                ent["value"] = freeze(getattr(owner, attr, "<missing>"), I)
            except Exception as e:  # malformed bound value
                ent["value"] = "MALFORMED:" + type(e).__name__
        else:
            ent["value"] = freeze(d.get("_value"), I)
        out.append(ent)
    res = {"target": I.who(aset.target), "items": out}
    if sorted(id(x) for x in aset._item_set) != sorted(id(x) for x in aset._item_list):
        res["set_list_mismatch"] = True
    if not out:
        # an empty annotation set is created lazily by a mere read of .annotations: not a difference
        return []
    return res


def extras(obj, known, I, skip=()):
    """ad-hoc PUBLIC attributes of obj.  An attribute that is not in the table of known fields
    and whose name starts with an underscore is hidden implementation state (a cache, a
    memo): it is neither compared between source and copy nor required to stay unchanged -
    only counted.  (The reachability walk still follows it: a mutable object reachable from
    both sides is a shared mutable part whatever the attribute is called.)"""
    out = {}
    for k, v in obj.__dict__.items():
        if k in known or k in skip:
            continue
        if k.startswith("_"):
            I.private.add((type(obj).__name__, k))
            continue
        out[k] = freeze(v, I)
    return out


NODE_KNOWN = {"_label", "taxon", "age", "_edge", "_child_nodes", "_parent_node", "comments", "_annotations"}
EDGE_KNOWN = {"_label", "_head_node", "rootedge", "length", "_bipartition", "comments", "_annotations"}
TREE_KNOWN = {"_label", "_taxon_namespace", "automigrate_taxon_namespace_on_assignment", "comments", "_is_rooted", "weight",
              "length_type", "_seed_node", "bipartition_encoding", "_split_bitmask_edge_map", "_bipartition_edge_map",
              "_annotations"}
TAXON_KNOWN = {"_label", "_lower_cased_label", "comments", "_annotations"}
NS_KNOWN = {"_label", "comments", "is_mutable", "is_case_sensitive", "_accession_index_taxon_map", "_taxa",
            "_taxon_accession_index_map", "_taxon_bitmask_map", "_current_accession_count", "_annotations"}
TL_KNOWN = {"_label", "_taxon_namespace", "automigrate_taxon_namespace_on_assignment", "tree_type", "_trees", "comments",
            "_annotations"}
MATRIX_KNOWN = {"_label", "_taxon_namespace", "automigrate_taxon_namespace_on_assignment", "_taxon_sequence_map",
                "character_types", "comments", "character_subsets", "_annotations", "state_alphabets",
                "_default_state_alphabet"}
SEQ_KNOWN = {"_character_values", "_character_types", "_character_annotations", "_annotations", "comments"}


def preorder_nodes(tree, limit=2000):
    out = []
    stack = [tree._seed_node] if tree._seed_node is not None else []
    while stack and len(out) < limit:
        nd = stack.pop()
        out.append(nd)
        stack.extend(reversed(nd._child_nodes))
    return out


def ident_ns(ns, I):
    I.add(ns, "ns")
    for i, t in enumerate(ns._taxa):
        I.add(t, "taxon%d" % i)


def ident_tree(tree, I, prefix=""):
    I.add(tree, prefix + "tree")
    for i, nd in enumerate(preorder_nodes(tree)):
        I.add(nd, prefix + "node%d" % i)
        if nd._edge is not None:
            I.add(nd._edge, prefix + "edge%d" % i)


def snap_bip(b):
    if b is None:
        return None
    d = b.__dict__
    return [d.get("_split_bitmask"), d.get("_leafset_bitmask"), d.get("_tree_leafset_bitmask"), d.get("_is_rooted"),
            d.get("is_mutable")]


def snap_taxon(t, I):
    return {"label": t._label, "comments": list(t.__dict__.get("comments", ())), "annotations": snap_annotations(t, I),
            "extra": extras(t, TAXON_KNOWN, I)}


def snap_ns(ns, I):
    d = ns.__dict__
    return {"label": d.get("_label"), "is_mutable": d.get("is_mutable"), "is_case_sensitive": d.get("is_case_sensitive"),
            "taxa": [snap_taxon(t, I) for t in ns._taxa],
            "accession_index_taxon_map": sorted([i, I.who(t)] for i, t in d["_accession_index_taxon_map"].items()),
            "taxon_accession_index_map": sorted([I.who(t), i] for t, i in d["_taxon_accession_index_map"].items()),
            "taxon_bitmask_map": sorted([I.who(t), i] for t, i in d["_taxon_bitmask_map"].items()),
            "accession_count": d.get("_current_accession_count"), "comments": list(d.get("comments", ())),
            "annotations": snap_annotations(ns, I), "extra": extras(ns, NS_KNOWN, I)}


def snap_node(nd, parent, I, depth=0):
    if depth > 60:
        return "TOO-DEEP"
    e = nd._edge
    b = e.__dict__.get("_bipartition")
    out = {"taxon": I.who(nd.taxon), "taxon_label": nd.taxon._label if nd.taxon is not None else None,
           "label": nd._label, "length": e.length, "edge_label": e._label,
           "age": nd.__dict__.get("age"), "comments": list(nd.__dict__.get("comments", ())),
           "annotations": snap_annotations(nd, I), "extra": extras(nd, NODE_KNOWN, I, ("extraction_source",)),
           "rootedge": e.__dict__.get("rootedge"), "edge_comments": list(e.__dict__.get("comments", ())),
           "edge_annotations": snap_annotations(e, I), "edge_extra": extras(e, EDGE_KNOWN, I),
           "bipartition": snap_bip(b),
           "bipartition_edge": I.who(b.__dict__.get("edge")) if b is not None else None,
           "links_ok": [e._head_node is nd, nd._parent_node is parent],
           "children": [snap_node(c, nd, I, depth + 1) for c in nd._child_nodes]}
    return out


def snap_tree(tree, I):
    d = tree.__dict__
    enc = d.get("bipartition_encoding")
    sem = d.get("_split_bitmask_edge_map")
    bem = d.get("_bipartition_edge_map")
    return {"label": d.get("_label"), "is_rooted": d.get("_is_rooted"), "weight": d.get("weight"),
            "length_type": d.get("length_type"), "comments": list(d.get("comments", ())),
            "annotations": snap_annotations(tree, I), "extra": extras(tree, TREE_KNOWN, I),
            "namespace": I.who(d.get("_taxon_namespace")),
            "bipartition_encoding": None if enc is None else sorted(
                [snap_bip(b), I.who(b.__dict__.get("edge"))] for b in enc),
            "split_bitmask_edge_map": None if sem is None else sorted(([k, I.who(v)] for k, v in sem.items()), key=repr),
            "bipartition_edge_map": None if bem is None else sorted(([snap_bip(k), I.who(v)] for k, v in bem.items()), key=repr),
            "nodes": snap_node(tree._seed_node, None, I)}


def thin_node(n):
    if not isinstance(n, dict):
        return n
    return {"taxon": n["taxon"], "taxon_label": n["taxon_label"], "label": n["label"], "length": n["length"],
            "edge_label": n["edge_label"], "children": [thin_node(c) for c in n["children"]]}


def thin_tree(t):
    return {"label": t["label"], "is_rooted": t["is_rooted"], "nodes": thin_node(t["nodes"])}


def thin_ns(nsnap):
    return [t["label"] for t in nsnap["taxa"]]


# ---------------------------------------------------------------------------
# reachability (oracle 2)

def walk(root, name=None):
    """BFS over the object graph.  Returns {id: (obj, path)} of the *mutable* objects reachable
    from root (tuples / frozensets are traversed but not recorded)."""
    seen = {}
    trav = set()
    queue = [(root, name or type(root).__name__)]
    qi = 0
    while qi < len(queue):
        o, path = queue[qi]
        qi += 1
        if isinstance(o, IMMUT) or isinstance(o, NOFOLLOW) or isinstance(o, WHITELIST):
            continue
        if id(o) in trav:
            continue
        trav.add(id(o))
        if not isinstance(o, (tuple, frozenset)):
            seen[id(o)] = (o, path)
        if isinstance(o, dict):
            for k, v in o.items():
                queue.append((k, path + "{key}"))
                queue.append((v, path + "{value}"))
        elif isinstance(o, (list, tuple, set, frozenset)):
            for x in o:
                queue.append((x, path + "[]"))
        d = getattr(o, "__dict__", None)
        if isinstance(d, dict):
            for k, v in d.items():
                if k == "extraction_source":
                    continue
                queue.append((v, path + "." + k))
    return seen


def short_path(p):
    """class-level path: keep the last three attribute steps"""
    parts = [x for x in p.replace("[]", "").replace("{key}", "").replace("{value}", "").split(".") if x]
    return ".".join(parts[-3:]) if len(parts) > 1 else p


# ---------------------------------------------------------------------------
# diff of two snapshots -> (key path without indices, a, b)

def diff(a, b, path=()):
    if type(a) is dict and type(b) is dict:
        for k in sorted(set(a) | set(b), key=str):
            if k not in a or k not in b:
                return (path + (str(k),), a.get(k, "<absent>"), b.get(k, "<absent>"))
            r = diff(a[k], b[k], path + (str(k),))
            if r:
                return r
        return None
    if type(a) is list and type(b) is list:
        if len(a) != len(b):
            return (path + ("#len",), len(a), len(b))
        for x, y in zip(a, b):
            r = diff(x, y, path)
            if r:
                return r
        return None
    if a != b or type(a) is not type(b) and not (isinstance(a, (int, float)) and isinstance(b, (int, float))):
        return (path, a, b)
    return None


def keypath(path):
    out = []
    for p in path:
        if not out or out[-1] != p:
            out.append(p)
    return "/".join(out[-4:])


def brief(x, n=160):
    s = repr(x)
    return s if len(s) <= n else s[:n] + "..."


# ---------------------------------------------------------------------------
# builders (public node / annotation API only; never a library copy)

def decorate_annotable(obj, tag, with_bound=None, with_nested=False, listval=False):
    obj.annotations.add_new(tag, 1)
    if with_nested:
        a = obj.annotations.add_new(tag + "_n", "x", datatype_hint="xsd:string")
        a.annotations.add_new("sub", "s")
    if listval:
        obj.annotations.add_new(tag + "_l", [1, [2]])
    if with_bound:
        obj.annotations.add_bound_attribute(with_bound)


def decorate_ns(ns, flags):
    if "com" in flags:
        ns.comments.append("ns-comment")
        for t in ns._taxa:
            t.comments.append("taxon-comment")
    if "ann" in flags:
        decorate_annotable(ns, "nsa", "label", True)
        for t in ns._taxa:
            decorate_annotable(t, "xa", "label", False, True)
    if "extra" in flags:
        ns.extra = ["e"]
        for t in ns._taxa:
            t.extra = {"k": [1]}


def decorate_tree(tree, flags, with_ns=True):
    nodes = preorder_nodes(tree)
    if "len" in flags:
        tree.label = "T"
        tree.weight = 2.0
        tree.length_type = "float"
        for i, nd in enumerate(nodes):
            nd.edge.length = float(i + 1)
            nd.edge.label = "e%d" % i
            if nd._child_nodes:
                nd.label = "i%d" % i
    if "com" in flags:
        tree.comments.append("tree-comment")
        for i, nd in enumerate(nodes):
            nd.comments.append("nc%d" % i)
            nd.edge.comments.append("ec%d" % i)
    if "ann" in flags:
        decorate_annotable(tree, "ta", "label", True, True)
        tree.annotations.add_bound_attribute("weight")
        tree.annotations.add_bound_attribute("label", annotation_name="seedlabel", owner_instance=tree.seed_node)
        tree.annotations.add_new("noderef", nodes[-1])
        for i, nd in enumerate(nodes):
            decorate_annotable(nd, "na%d" % i, "label", i == 0, i == 1)
            decorate_annotable(nd.edge, "ea%d" % i, "length")
    if "extra" in flags:
        tree.extra = ["x", {"k": [1]}]
        for i, nd in enumerate(nodes):
            nd.extra = [i]
            nd.edge.extra = {"i": [i]}
    if with_ns:
        decorate_ns(tree.taxon_namespace, flags)
    if "bip" in flags:
        tree.encode_bipartitions()


def build_tree_obj(desc):
    n, si = desc["n"], desc["si"]
    shape = U.shapes(n)[si]
    ns, _bit = build.make_namespace(U.LABELS[:n], desc.get("nscfg", "exact"))
    tree = build.build_tree((desc["rooted"], ref.mk(shape)), ns)
    if desc.get("inttax"):
        # a taxon on an internal node and a leaf without taxon (legal, rarely exercised)
        nodes = preorder_nodes(tree)
        nodes[0].taxon = ns.new_taxon("int")
        if len(nodes) > 1:
            nodes[-1].taxon = None
    decorate_tree(tree, desc["flags"])
    return tree


TL_POOL = [
    {"n": 2, "si": 0, "flags": ["len", "com", "ann", "extra"]},
    {"n": 3, "si": 0, "flags": []},
    {"n": 3, "si": 3, "flags": ["len", "bip"]},
    {"n": 3, "si": 1, "flags": ["ann"]},
]


def build_treelist_obj(desc):
    ns, _bit = build.make_namespace(U.LABELS[:3], "exact")
    tl = dendropy.TreeList(taxon_namespace=ns)
    built = {}
    for pi in desc["members"]:
        if pi not in built:  # the same pool entry twice = the same tree object twice
            p = TL_POOL[pi]
            t = build.build_tree((desc.get("rooted", True), ref.mk(U.shapes(p["n"])[p["si"]])), ns)
            decorate_tree(t, p["flags"], with_ns=False)
            built[pi] = t
        tl.append(built[pi])
    flags = desc["flags"]
    if "len" in flags:
        tl.label = "TL"
    if "com" in flags:
        tl.comments.append("list-comment")
    if "ann" in flags:
        decorate_annotable(tl, "tla", "label", True, True)
        if desc.get("bound_member") and len(tl._trees):
            tl.annotations.add_bound_attribute("label", annotation_name="member0label", owner_instance=tl._trees[0])
    if "extra" in flags:
        tl.extra = ["x", [1]]
    decorate_ns(ns, flags)
    return tl


MATRIX_DATA = {
    "dna": ["ACGT", "A-TN", "CCRA"],
    "standard": ["0123", "0?12", "1100"],
    "continuous": [[0.5, 1.0, 2.0, -1.0], [1.5, 1.0, 0.25, 0.0], [3.0, 2.0, 1.0, 4.0]],
}
MATRIX_TYPES = {"dna": dendropy.DnaCharacterMatrix, "standard": dendropy.StandardCharacterMatrix,
                "continuous": dendropy.ContinuousCharacterMatrix}


def build_matrix_obj(desc):
    if desc.get("degenerate"):
        ns = dendropy.TaxonNamespace()      # no taxa at all (and therefore no rows)
    else:
        ns, _bit = build.make_namespace(U.LABELS[:3], "extra_high")  # '_hi' has no sequence
    dtype = desc["dtype"]
    m = MATRIX_TYPES[dtype](taxon_namespace=ns)
    data = MATRIX_DATA[dtype][:desc["rows"]]
    for t, row in zip(ns._taxa, data):
        m.new_sequence(t, m.coerce_values(row) if dtype != "continuous" else list(row))
    flags = desc["flags"]
    if "len" in flags:
        m.label = "M"
    if "com" in flags:
        m.comments.append("matrix-comment")
    if "ann" in flags:
        decorate_annotable(m, "ma", "label", True, True)
        for i, seq in enumerate(m._taxon_sequence_map.values()):
            decorate_annotable(seq, "sa%d" % i)
    if "ct" in flags:
        alpha = m.__dict__.get("_default_state_alphabet")
        ct0 = charmatrixmodel.CharacterType(label="ct0", state_alphabet=alpha)
        ct1 = charmatrixmodel.CharacterType(label="ct1", state_alphabet=alpha)
        ct0.annotations.add_new("cta", 1)
        m.character_types.append(ct0)
        m.character_types.append(ct1)
        for seq in m._taxon_sequence_map.values():
            for j in range(len(seq)):
                seq.set_character_type_at(j, ct0 if j % 2 == 0 else ct1)
            seq.annotations_at(0).add_new("cell0", "c")
            seq.annotations_at(1).add_new("cell1", [1])
    if "sub" in flags:
        cs = m.new_character_subset("cs1", [0, 2])
        cs.annotations.add_new("csa", 1)
        m.new_character_subset("cs2", [1])
    if "extra" in flags:
        m.extra = ["x", [1]]
        for seq in m._taxon_sequence_map.values():
            seq.extra = [1]
    decorate_ns(ns, flags)
    return m


def build_ns_obj(desc):
    k = desc["ntax"]
    cfg = desc["cfg"]
    labels = U.LABELS[:k]
    if cfg == "plain" or k == 0:
        ns = dendropy.TaxonNamespace()
        for l in labels:
            ns.add_taxon(dendropy.Taxon(label=l))
    else:
        ns, _bit = build.make_namespace(labels, cfg)
    if "len" in desc["flags"]:
        ns.label = "NS"
    if desc.get("bitmasks"):
        for t in ns._taxa:
            ns.taxon_bitmask(t)  # fills the lazily built bitmask map
    decorate_ns(ns, desc["flags"])
    return ns


# degenerate sources: objects over an EMPTY namespace, single-node trees, a namespace whose only
# taxon has the label None / ''
DEGENERATE = {
    "tree": ["bare", "taxonless3", "single_taxon", "single_notaxon_unused_taxon", "single_taxon_label_none",
             "single_taxon_label_empty"],
    "treelist": ["empty", "one_bare_tree", "two_taxonless_trees"],
    "matrix": ["no_rows_empty_namespace"],
    "ns": ["only_taxon_label_none", "only_taxon_label_empty"],
}


def _taxonless3(ns):
    t = dendropy.Tree(taxon_namespace=ns)
    t.seed_node.new_child(edge_length=1.0)
    t.seed_node.new_child(edge_length=2.0)
    return t


def _decorate_list(tl, desc):
    flags = desc["flags"]
    if "len" in flags:
        tl.label = "TL"
    if "com" in flags:
        tl.comments.append("list-comment")
    if "ann" in flags:
        decorate_annotable(tl, "tla", "label", True, True)
    if "extra" in flags:
        tl.extra = ["x", [1]]
    decorate_ns(tl.taxon_namespace, flags)


def build_degenerate(desc):
    kind, d = desc["kind"], desc["degenerate"]
    if kind == "tree":
        if d == "bare":
            tree = dendropy.Tree()
        elif d == "taxonless3":
            tree = _taxonless3(dendropy.TaxonNamespace())
        else:
            ns = dendropy.TaxonNamespace()
            label = {"single_taxon": "a", "single_notaxon_unused_taxon": "a", "single_taxon_label_none": None,
                     "single_taxon_label_empty": ""}[d]
            tx = dendropy.Taxon(label=label)
            ns.add_taxon(tx)
            tree = dendropy.Tree(taxon_namespace=ns)
            if d != "single_notaxon_unused_taxon":
                tree.seed_node.taxon = tx
        tree.is_rooted = desc.get("rooted")
        decorate_tree(tree, desc["flags"])
        return tree
    if kind == "treelist":
        tl = dendropy.TreeList()
        if d == "one_bare_tree":
            tl.append(dendropy.Tree(taxon_namespace=tl.taxon_namespace))
        elif d == "two_taxonless_trees":
            tl.append(_taxonless3(tl.taxon_namespace))
            tl.append(_taxonless3(tl.taxon_namespace))
        _decorate_list(tl, desc)
        return tl
    if kind == "matrix":
        return build_matrix_obj(desc)
    ns = dendropy.TaxonNamespace()
    ns.add_taxon(dendropy.Taxon(label=None if d == "only_taxon_label_none" else ""))
    if "len" in desc["flags"]:
        ns.label = "NS"
    if desc.get("bitmasks"):
        for t in ns._taxa:
            ns.taxon_bitmask(t)
    decorate_ns(ns, desc["flags"])
    return ns


def _build(kind):
    def f(desc):
        if desc.get("degenerate") and not (kind == "matrix"):
            return build_degenerate(desc)
        return _PLAIN_BUILDERS[kind](desc)
    return f


_PLAIN_BUILDERS = {"tree": build_tree_obj, "treelist": build_treelist_obj, "matrix": build_matrix_obj, "ns": build_ns_obj}
BUILDERS = {k: _build(k) for k in _PLAIN_BUILDERS}


# ---------------------------------------------------------------------------
# routes

def _newns():
    return dendropy.TaxonNamespace()


ROUTE_FN = {
    "deepcopy": lambda x: copy.deepcopy(x),
    "clone0": lambda x: x.clone(0),
    "clone1": lambda x: x.clone(1),
    "clone2": lambda x: x.clone(2),
    "ctor": lambda x: type(x)(x),
    "ctor_newns": lambda x: type(x)(x, taxon_namespace=_newns()),
    "ctor_label": lambda x: type(x)(x, label="relabelled"),
    "copy": lambda x: copy.copy(x),
    "nsscoped": lambda x: x.taxon_namespace_scoped_copy(),
    "extract": lambda x: x.extract_tree(),
}


def routes_of(kind):
    return {"tree": TREE_ROUTES, "treelist": COLL_ROUTES, "matrix": COLL_ROUTES, "ns": NS_ROUTES}[kind]


def family(kind, route):
    """documented depth of a route for a kind"""
    if kind == "ns":
        if route in ("deepcopy", "clone2", "deepcopy_memo"):
            return "deep"
        if route == "clone1":
            return "identity"
        return "shallow"
    if route in ("deepcopy", "clone2", "deepcopy_memo"):
        return "deep"
    if route == "ctor_newns":
        return "newns"
    if route == "extract":
        return "extract"
    if route in ("clone0", "copy") and kind != "tree":
        return "shallow"
    if route == "ctor":
        return "ctor"
    return "nsscoped"


def apply_route(obj, route):
    with warnings.catch_warnings():
        warnings.simplefilter("ignore")
        return ROUTE_FN[route](obj)


# ---------------------------------------------------------------------------
# full snapshots per kind: dict of parts

def snapshot(kind, obj):
    I = Ident()
    if kind == "tree":
        ident_tree(obj, I)
        ns = obj.__dict__.get("_taxon_namespace")
        if ns is not None:
            ident_ns(ns, I)
        s = {"tree": snap_tree(obj, I), "ns": snap_ns(ns, I) if ns is not None else None}
    elif kind == "treelist":
        I.add(obj, "list")
        ns = obj.__dict__.get("_taxon_namespace")
        ident_ns(ns, I)
        names = []
        distinct = []
        for t in obj._trees:
            if id(t) not in I.by_id:
                ident_tree(t, I, "t%d." % len(distinct))
                distinct.append(t)
            names.append(I.who(t))
        d = obj.__dict__
        s = {"list": {"label": d.get("_label"), "comments": list(d.get("comments", ())),
                      "annotations": snap_annotations(obj, I), "extra": extras(obj, TL_KNOWN, I),
                      "members": names, "namespace": I.who(ns),
                      "tree_type": getattr(d.get("tree_type"), "__name__", None)},
             "trees": [snap_tree(t, I) for t in distinct], "ns": snap_ns(ns, I)}
    elif kind == "matrix":
        I.add(obj, "matrix")
        ns = obj.__dict__.get("_taxon_namespace")
        ident_ns(ns, I)
        d = obj.__dict__
        for i, ct in enumerate(d.get("character_types", ())):
            I.add(ct, "ctype%d" % i)
        for i, seq in enumerate(d["_taxon_sequence_map"].values()):
            I.add(seq, "seq%d" % i)
        rows = []
        for t, seq in d["_taxon_sequence_map"].items():
            sd = seq.__dict__
            cells = []
            for aset in sd["_character_annotations"]:
                if aset is None:
                    cells.append(None)
                else:
                    cells.append({"target": I.who(aset.target), "items": snap_annotations(_Holder(aset), I)})
            rows.append({"taxon": I.who(t), "taxon_label": t._label, "type": type(seq).__name__,
                         "values": [freeze(v, I) for v in sd["_character_values"]],
                         "types": [I.who(c) for c in sd["_character_types"]], "cell_annotations": cells,
                         "annotations": snap_annotations(seq, I), "extra": extras(seq, SEQ_KNOWN, I)})
        subsets = []
        cs = d.get("character_subsets")
        if cs is not None:
            for key in list(cs.keys()):
                sub = cs[key]
                subsets.append({"key": key, "label": sub._label, "indices": sorted(sub.character_indices),
                                "annotations": snap_annotations(sub, I)})
        s = {"matrix": {"label": d.get("_label"), "type": type(obj).__name__, "comments": list(d.get("comments", ())),
                        "annotations": snap_annotations(obj, I), "extra": extras(obj, MATRIX_KNOWN, I),
                        "namespace": I.who(ns), "rows": rows,
                        "character_types": [{"label": ct._label, "annotations": snap_annotations(ct, I),
                                             "has_alphabet": ct.__dict__.get("_state_alphabet") is not None}
                                            for ct in d.get("character_types", ())],
                        "subsets": subsets, "alphabets": snap_alphabets(obj)},
             "ns": snap_ns(ns, I)}
    elif kind == "ns":
        ident_ns(obj, I)
        s = {"ns": snap_ns(obj, I)}
    else:
        raise ValueError(kind)
    return s, I


def snap_alphabets(m):
    """id-free description of a discrete matrix's state alphabets: how many it lists, whether
    its default alphabet is listed, the default alphabet's fundamental symbols, and whether
    every cell value is a state of one of the matrix's own alphabets"""
    d = m.__dict__
    if "state_alphabets" not in d:
        return None
    own = list(d["state_alphabets"])
    dflt = d.get("_default_state_alphabet")
    if dflt is not None and not any(dflt is a for a in own):
        own.append(dflt)
    states = set()
    for a in own:
        ad = getattr(a, "__dict__", {})
        for nm in ("_fundamental_states", "_ambiguous_states", "_polymorphic_states"):
            for st in ad.get(nm, ()) or ():
                states.add(id(st))
    consistent = True
    for seq in d["_taxon_sequence_map"].values():
        for v in seq._character_values:
            if isinstance(v, charstatemodel.StateIdentity) and id(v) not in states:
                consistent = False
    syms = None
    eff = dflt if dflt is not None else (d["state_alphabets"][0] if len(d["state_alphabets"]) == 1 else None)
    if eff is not None:
        syms = "".join(str(st.__dict__.get("_symbol")) for st in eff.__dict__.get("_fundamental_states", ()))
    return {"listed": len(d["state_alphabets"]), "default_is_listed": dflt is None or any(dflt is a for a in d["state_alphabets"]),
            "default_symbols": syms, "cell_values_belong_to_own_alphabets": consistent}


class _Holder(object):
    """lets snap_annotations read a bare AnnotationSet"""

    def __init__(self, aset):
        self._annotations = aset


def view(kind, s, fam):
    """the part of a full snapshot on which equality is demanded for a route family"""
    if fam in ("deep", "nsscoped", "ctor", "identity"):
        return s
    if fam == "newns":
        out = dict(s)
        out["ns"] = thin_ns(s["ns"])
        return out
    if fam == "extract":
        return {"tree": thin_tree(s["tree"])}
    if fam == "shallow":
        if kind == "treelist":
            l = s["list"]
            return {"label": l["label"], "annotations": l["annotations"], "members": len(l["members"])}
        if kind == "matrix":
            m = s["matrix"]
            return {"label": m["label"], "annotations": m["annotations"], "type": m["type"],
                    "rows": [[r["taxon"], r["values"]] for r in m["rows"]]}
        return s
    raise ValueError(fam)


def body(kind, s, fam):
    """the part of a full snapshot that must not change when the OTHER side is mutated"""
    if fam in ("deep", "newns"):
        return s
    if kind == "ns":
        return s
    return {k: v for k, v in s.items() if k != "ns"}


# ---------------------------------------------------------------------------
# documented sharing (oracle 2)

def members_of(kind, obj):
    if kind == "treelist":
        return list(obj._trees)
    if kind == "matrix":
        return list(obj._taxon_sequence_map.values())
    if kind == "ns":
        return list(obj._taxa)
    return []


def allowed_shared(kind, src, fam):
    """ids of the objects the copy may share with src"""
    if fam in ("deep", "newns"):
        return {}
    if kind == "ns":
        out = {}
        for t in src._taxa:
            out.update(walk(t))
        return out
    out = dict(walk(src._taxon_namespace))
    if fam == "shallow":
        for m in members_of(kind, src):
            out.update(walk(m))
    return out


def identity_problems(kind, src, cp, fam):
    """what the route documents as *shared* must be the very same objects"""
    probs = []
    if kind == "ns":
        if fam == "shallow":
            if len(cp._taxa) != len(src._taxa) or any(a is not b for a, b in zip(cp._taxa, src._taxa)):
                probs.append(("taxa", "member taxa of the shallow namespace copy are not the source's taxa, in order"))
        return probs
    same_ns = cp._taxon_namespace is src._taxon_namespace
    if fam in ("deep", "newns"):
        if same_ns:
            probs.append(("namespace-shared", "deep copy refers to the source's namespace"))
        return probs
    if not same_ns:
        probs.append(("namespace", "copy does not refer to the source's namespace"))
    if kind == "tree":
        a = [nd.taxon for nd in preorder_nodes(src)]
        b = [nd.taxon for nd in preorder_nodes(cp)]
        if len(a) != len(b) or any(x is not y for x, y in zip(a, b)):
            probs.append(("taxa", "node taxa of the copy are not the source's Taxon objects"))
    if fam == "shallow":
        a, b = members_of(kind, src), members_of(kind, cp)
        if len(a) != len(b) or any(x is not y for x, y in zip(a, b)):
            probs.append(("members", "members of the documented-shallow copy are not the source's member objects"))
    return probs


def _public(names):
    return set(n for n in names if not n.startswith("_"))


def extract_only_problems(cp):
    """extract_tree 'copies structure, lengths, labels and taxa only'"""
    probs = []
    d = cp.__dict__
    if d.get("comments") or len(d.get("_annotations", ())) or _public(set(d) - TREE_KNOWN):
        probs.append("tree carries comments/annotations/extra attributes")
    if d.get("bipartition_encoding"):
        probs.append("tree carries a bipartition encoding")
    for nd in preorder_nodes(cp):
        nx = _public(set(nd.__dict__) - NODE_KNOWN - {"extraction_source"})
        ex = _public(set(nd._edge.__dict__) - EDGE_KNOWN)
        if nd.comments or nd._edge.comments or len(nd.__dict__.get("_annotations", ())) or \
                len(nd._edge.__dict__.get("_annotations", ())) or nx or ex or nd._edge.__dict__.get("_bipartition") is not None:
            probs.append("node/edge carries comments/annotations/extra attributes/bipartition")
            break
    return probs


# ---------------------------------------------------------------------------
# mutation alphabet (oracle 3)

def annotables(kind, obj):
    """[(ref, object, category)] of everything that can carry annotations"""
    out = []
    if kind == "tree":
        out.append((["tree"], obj, "own"))
        for i, nd in enumerate(preorder_nodes(obj)):
            out.append((["node", i], nd, "own"))
            out.append((["edge", i], nd._edge, "own"))
        ns = obj._taxon_namespace
    elif kind == "treelist":
        out.append((["list"], obj, "own"))
        seen = set()
        for j, t in enumerate(obj._trees):
            if id(t) in seen:
                continue
            seen.add(id(t))
            out.append((["member", j], t, "member"))
            nodes = preorder_nodes(t)
            out.append((["membernode", j, len(nodes) - 1], nodes[-1], "member"))
        ns = obj._taxon_namespace
    elif kind == "matrix":
        out.append((["matrix"], obj, "own"))
        for r, seq in enumerate(obj._taxon_sequence_map.values()):
            out.append((["seq", r], seq, "member"))
        for k, ct in enumerate(obj.character_types):
            out.append((["ctype", k], ct, "own"))
        for k, key in enumerate(list(obj.character_subsets.keys())):
            out.append((["subset", k], obj.character_subsets[key], "own"))
        ns = obj._taxon_namespace
    else:
        ns = obj
    out.append((["ns"], ns, "own" if kind == "ns" else "ns"))
    for k, t in enumerate(ns._taxa):
        out.append((["taxon", k], t, "taxon"))
    return out


def resolve(kind, obj, r):
    for rr, o, _c in annotables(kind, obj):
        if rr == r:
            return o
    raise KeyError(r)


def annotation_mutations(kind, obj):
    out = []
    for r, o, cat in annotables(kind, obj):
        out.append((["ann_add", r], cat))
        if hasattr(o, "_label") or hasattr(o, "label"):
            out.append((["ann_add_bound", r], cat))
        aset = o.__dict__.get("_annotations")
        items = list(aset._item_list) if aset is not None else []
        if items:
            out.append((["ann_drop", r], cat))
        for j, a in enumerate(items):
            out.append((["ann_remove", r, j], cat))
            out.append((["ann_rename", r, j], cat))
            out.append((["ann_sub", r, j], cat))
            if not a.is_attribute:
                out.append((["ann_set", r, j], cat))
                if isinstance(a._value, list):
                    out.append((["ann_inplace", r, j], cat))
            for jj, _s in enumerate(a.__dict__["_annotations"]._item_list if "_annotations" in a.__dict__ else ()):
                out.append((["ann_subset", r, j, jj], cat))
    return out


def apply_annotation_mutation(kind, obj, m):
    name = m[0]
    o = resolve(kind, obj, m[1])
    if name == "ann_add":
        o.annotations.add_new("zz", 5)
        return
    if name == "ann_add_bound":
        o.annotations.add_bound_attribute("label", annotation_name="zzb")
        return
    if name == "ann_drop":
        o.annotations.drop()
        return
    a = list(o.annotations)[m[2]]
    if name == "ann_remove":
        o.annotations.remove(a)
    elif name == "ann_rename":
        a.name = "renamed"
    elif name == "ann_sub":
        a.annotations.add_new("zzsub", 1)
    elif name == "ann_set":
        a.value = "changed"
    elif name == "ann_inplace":
        a._value.append("zz")
    elif name == "ann_subset":
        list(a.annotations)[m[3]].value = "subchanged"
    else:
        raise ValueError(m)


def tree_mutations(tree, prefix=None):
    """[(mutation, category)] for one tree; prefix = ["member", j] inside a tree list"""
    out = []

    def add(m, cat="own"):
        out.append((m, cat))
    nodes = preorder_nodes(tree)
    add(["tree_label"])
    add(["tree_weight"])
    add(["tree_rooted"])
    add(["tree_comment"])
    add(["tree_new_seed"])
    add(["encode"])
    add(["tree_attr"])
    if "extra" in tree.__dict__:
        add(["tree_extra"])
    for i, nd in enumerate(nodes):
        add(["node_label", i])
        add(["edge_length", i])
        add(["edge_label", i])
        add(["node_comment", i])
        add(["edge_comment", i])
        add(["node_taxon_new", i])
        add(["new_child", i])
        if "extra" in nd.__dict__:
            add(["node_extra", i])
            add(["edge_extra", i])
        if nd._parent_node is not None:
            add(["remove_child", i])
            add(["remove_child_encode", i])
            if nd._child_nodes:
                add(["collapse", i])
        if nd._child_nodes:
            add(["reverse_children", i])
            if nd._parent_node is not None:
                add(["reseed", i])
        if nd._edge.__dict__.get("_bipartition") is not None:
            add(["bip_edit", i])
    ns = tree._taxon_namespace
    leaves = [nd for nd in nodes if not nd._child_nodes and nd.taxon is not None]
    if len(leaves) >= 3:
        for k, t in enumerate(ns._taxa):
            if any(nd.taxon is t for nd in leaves):
                add(["prune_taxon", k])
    return out


def apply_tree_mutation(tree, m):
    name = m[0]
    nodes = preorder_nodes(tree)
    if name == "tree_label":
        tree.label = "zz"
    elif name == "tree_weight":
        tree.weight = 9.5
    elif name == "tree_rooted":
        tree.is_rooted = not tree.is_rooted
    elif name == "tree_comment":
        tree.comments.append("zz")
    elif name == "tree_new_seed":
        tree.seed_node = Node(label="zzseed")
    elif name == "encode":
        tree.encode_bipartitions()
    elif name == "tree_attr":
        tree.zz_new_attribute = ["zz"]
    elif name == "tree_extra":
        tree.extra.append("zz")
        tree.extra[1]["k"].append(9)
    else:
        nd = nodes[m[1]] if name != "prune_taxon" else None
        if name == "node_label":
            nd.label = "zz"
        elif name == "edge_length":
            nd.edge.length = 99.0
        elif name == "edge_label":
            nd.edge.label = "zz"
        elif name == "node_comment":
            nd.comments.append("zz")
        elif name == "edge_comment":
            nd.edge.comments.append("zz")
        elif name == "node_taxon_new":
            nd.taxon = dendropy.Taxon(label="zz")
        elif name == "new_child":
            nd.new_child(label="zzchild", edge_length=7.0)
        elif name == "node_extra":
            nd.extra.append("zz")
        elif name == "edge_extra":
            nd.edge.extra["i"].append("zz")
        elif name == "remove_child":
            nd.parent_node.remove_child(nd)
        elif name == "remove_child_encode":
            nd.parent_node.remove_child(nd)
            tree.encode_bipartitions()
        elif name == "collapse":
            nd.edge.collapse()
        elif name == "reverse_children":
            nd.set_child_nodes(list(reversed(nd.child_nodes())))
        elif name == "reseed":
            tree.reseed_at(nd)
        elif name == "bip_edit":
            b = nd.edge.bipartition
            b.is_mutable = True
            b.split_bitmask = 0
            b.leafset_bitmask = 0
        elif name == "prune_taxon":
            tree.prune_taxa([tree.taxon_namespace._taxa[m[1]]])
        else:
            raise ValueError(m)


def ns_mutations(ns, own):
    cat = "own" if own else "ns"
    out = [(["ns_label"], cat), (["ns_comment"], cat), (["ns_add"], cat), (["ns_sort_reverse"], cat), (["ns_reverse"], cat),
           (["ns_immutable"], cat), (["ns_case"], cat), (["ns_clear"], cat), (["ns_attr"], cat)]
    for k, t in enumerate(ns._taxa):
        out.append((["ns_remove", k], cat))
        out.append((["taxon_label", k], "taxon"))
        out.append((["taxon_comment", k], "taxon"))
        out.append((["ns_bitmask", k], cat))
        if "extra" in t.__dict__:
            out.append((["taxon_extra", k], "taxon"))
    if "extra" in ns.__dict__:
        out.append((["ns_extra"], cat))
    return out


def apply_ns_mutation(ns, m):
    name = m[0]
    if name == "ns_label":
        ns.label = "zz"
    elif name == "ns_comment":
        ns.comments.append("zz")
    elif name == "ns_add":
        ns.new_taxon("zznew")
    elif name == "ns_sort_reverse":
        ns.sort(reverse=True)
    elif name == "ns_reverse":
        ns.reverse()
    elif name == "ns_immutable":
        ns.is_mutable = False
    elif name == "ns_case":
        ns.is_case_sensitive = True
    elif name == "ns_clear":
        ns.clear()
    elif name == "ns_attr":
        ns.zz_new_attribute = ["zz"]
    elif name == "ns_extra":
        ns.extra.append("zz")
    elif name == "ns_remove":
        ns.remove_taxon(ns._taxa[m[1]])
    elif name == "ns_bitmask":
        ns.taxon_bitmask(ns._taxa[m[1]])
    elif name == "taxon_label":
        ns._taxa[m[1]].label = "zz"
    elif name == "taxon_comment":
        ns._taxa[m[1]].comments.append("zz")
    elif name == "taxon_extra":
        ns._taxa[m[1]].extra["k"].append("zz")
    else:
        raise ValueError(m)


MEMBER_TREE_MUTATIONS = ("tree_label", "tree_comment", "encode", "node_label", "edge_length", "new_child", "remove_child",
                         "node_comment", "tree_rooted")


def mutations(kind, obj):
    """every enabled mutation of the alphabet with its category:
    own (never shared) | member (shared by shallow copies) | ns, taxon (shared by namespace-sharing copies)"""
    out = []
    if kind == "tree":
        out.extend(tree_mutations(obj))
        out.extend(ns_mutations(obj._taxon_namespace, False))
    elif kind == "treelist":
        for nm in ("list_label", "list_comment", "list_append", "list_insert", "list_reverse", "list_clear", "list_attr",
                   "list_iadd"):
            out.append(([nm], "own"))
        if "extra" in obj.__dict__:
            out.append((["list_extra"], "own"))
        seen = set()
        for j, t in enumerate(obj._trees):
            out.append((["list_pop", j], "own"))
            out.append((["list_setitem", j], "own"))
            if id(t) in seen:
                continue
            seen.add(id(t))
            for m, _c in tree_mutations(t):
                if m[0] in MEMBER_TREE_MUTATIONS:
                    out.append((["member", j] + m, "member"))
        out.extend(ns_mutations(obj._taxon_namespace, False))
    elif kind == "matrix":
        for nm in ("matrix_label", "matrix_comment", "row_new", "matrix_clear", "ctype_add", "subset_add", "matrix_attr"):
            out.append(([nm], "own"))
        if "extra" in obj.__dict__:
            out.append((["matrix_extra"], "own"))
        for r, seq in enumerate(obj._taxon_sequence_map.values()):
            out.append((["row_del", r], "own"))
            out.append((["row_replace", r], "own"))
            out.append((["seq_append", r], "member"))
            if "extra" in seq.__dict__:
                out.append((["seq_extra", r], "member"))
            for j in range(len(seq)):
                out.append((["cell_set", r, j], "member"))
                out.append((["cell_del", r, j], "member"))
                out.append((["cell_ann_add", r, j], "member"))
                out.append((["cell_type_set", r, j], "member"))
                if seq._character_annotations[j] is not None and len(seq._character_annotations[j]):
                    out.append((["cell_ann_set", r, j], "member"))
        for k, _ct in enumerate(obj.character_types):
            out.append((["ctype_label", k], "own"))
            out.append((["ctype_remove", k], "own"))
        for k, _key in enumerate(list(obj.character_subsets.keys())):
            out.append((["subset_edit", k], "own"))
            out.append((["subset_remove", k], "own"))
            out.append((["subset_label", k], "own"))
        out.extend(ns_mutations(obj._taxon_namespace, False))
    elif kind == "ns":
        out.extend(ns_mutations(obj, True))
    out.extend(annotation_mutations(kind, obj))
    return out


def _new_value(m, seq, j=None):
    """a replacement cell value: another value already present in the matrix (so that the
    choice does not depend on which alphabet object the matrix lists), else a state of the
    default alphabet"""
    if isinstance(m, dendropy.ContinuousCharacterMatrix):
        return 77.5
    cur = seq._character_values[j] if (seq is not None and j is not None and j < len(seq)) else None
    for s2 in m._taxon_sequence_map.values():
        for v in s2._character_values:
            if v is not cur:
                return v
    alpha = m.default_state_alphabet
    for sym in ("T", "1"):
        try:
            return alpha[sym]
        except Exception:
            continue
    raise ValueError("no replacement state")


def _small_tree(ns, label):
    t = dendropy.Tree(taxon_namespace=ns)
    t.label = label
    for tx in ns._taxa[:2]:
        t.seed_node.new_child(taxon=tx, edge_length=1.0)
    return t


def apply_mutation(kind, obj, m):
    name = m[0]
    if name.startswith("ann_"):
        return apply_annotation_mutation(kind, obj, m)
    if name.startswith("ns_") or name.startswith("taxon_"):
        return apply_ns_mutation(obj if kind == "ns" else obj._taxon_namespace, m)
    if kind == "tree":
        return apply_tree_mutation(obj, m)
    if kind == "treelist":
        ns = obj._taxon_namespace
        if name == "member":
            return apply_tree_mutation(obj._trees[m[1]], m[2:])
        if name == "list_label":
            obj.label = "zz"
        elif name == "list_comment":
            obj.comments.append("zz")
        elif name == "list_append":
            obj.append(_small_tree(ns, "zzappended"))
        elif name == "list_insert":
            obj.insert(0, _small_tree(ns, "zzinserted"))
        elif name == "list_iadd":
            obj += [_small_tree(ns, "zziadd")]
        elif name == "list_reverse":
            obj.reverse()
        elif name == "list_clear":
            obj.clear()
        elif name == "list_attr":
            obj.zz_new_attribute = ["zz"]
        elif name == "list_extra":
            obj.extra.append("zz")
            obj.extra[1].append("zz")
        elif name == "list_pop":
            obj.pop(m[1])
        elif name == "list_setitem":
            obj[m[1]] = _small_tree(ns, "zzset")
        else:
            raise ValueError(m)
        return
    if kind == "matrix":
        ns = obj._taxon_namespace
        seqs = list(obj._taxon_sequence_map.values())
        taxa = list(obj._taxon_sequence_map.keys())
        if name == "matrix_label":
            obj.label = "zz"
        elif name == "matrix_comment":
            obj.comments.append("zz")
        elif name == "matrix_attr":
            obj.zz_new_attribute = ["zz"]
        elif name == "matrix_extra":
            obj.extra.append("zz")
            obj.extra[1].append("zz")
        elif name == "matrix_clear":
            obj.clear()
        elif name == "row_new":
            free = [t for t in ns._taxa if t not in obj._taxon_sequence_map]
            obj.new_sequence(free[0], [_new_value(obj, None)] * 2)
        elif name == "row_del":
            del obj[taxa[m[1]]]
        elif name == "row_replace":
            obj[taxa[m[1]]] = [_new_value(obj, None)] * 3
        elif name == "seq_append":
            seqs[m[1]].append(_new_value(obj, None))
        elif name == "seq_extra":
            seqs[m[1]].extra.append("zz")
        elif name == "cell_set":
            seqs[m[1]][m[2]] = _new_value(obj, seqs[m[1]], m[2])
        elif name == "cell_del":
            del seqs[m[1]][m[2]]
        elif name == "cell_ann_add":
            seqs[m[1]].annotations_at(m[2]).add_new("zzcell", 1)
        elif name == "cell_ann_set":
            list(seqs[m[1]].annotations_at(m[2]))[0].value = "cellchanged"
        elif name == "cell_type_set":
            seqs[m[1]].set_character_type_at(m[2], charmatrixmodel.CharacterType(label="zztype"))
        elif name == "ctype_add":
            obj.character_types.append(charmatrixmodel.CharacterType(label="zztype"))
        elif name == "ctype_label":
            obj.character_types[m[1]].label = "zz"
        elif name == "ctype_remove":
            del obj.character_types[m[1]]
        elif name == "subset_add":
            obj.new_character_subset("zzsubset", [3])
        elif name == "subset_edit":
            obj.character_subsets[list(obj.character_subsets.keys())[m[1]]].character_indices.add(3)
        elif name == "subset_label":
            obj.character_subsets[list(obj.character_subsets.keys())[m[1]]].label = "zz"
        elif name == "subset_remove":
            del obj.character_subsets[list(obj.character_subsets.keys())[m[1]]]
        else:
            raise ValueError(m)
        return
    raise ValueError((kind, m))


def shared_categories(kind, fam):
    if fam in ("deep", "newns"):
        return ()
    if kind == "ns":
        return ("taxon",)
    if fam == "shallow":
        return ("ns", "taxon", "member")
    return ("ns", "taxon")


# ---------------------------------------------------------------------------
# the checks

def chain_name(chain):
    return ">".join(chain)


def sig_route(kind, chain, raises=False):
    """route part of a signature: the documented-depth family of the last route (the message
    names the whole chain).  Only for an exception raised while copying an object that was
    itself produced by a copy constructor the provenance is named instead: every route fails
    alike there, and every other copy is supposed to be as good as a built object."""
    fam = family(kind, chain[-1])
    if raises and len(chain) > 1 and family(kind, chain[-2]) in ("ctor", "newns"):
        return "any-route-applied-to-a-copy-constructed-object"
    return fam


def make_pair(desc, chain):
    """fresh (source, copy).  Earlier links of the chain produce the source.  Returns
    (src, cp, error) where error = (stage, exception) or None."""
    kind = desc["kind"]
    obj = BUILDERS[kind](desc)
    for r in chain[:-1]:
        try:
            obj = apply_route(obj, r)
        except Exception as e:
            return None, None, ("source", e)
    try:
        cp = apply_route(obj, chain[-1])
    except RecursionError as e:
        return obj, None, ("copy", e)
    except Exception as e:
        return obj, None, ("copy", e)
    return obj, cp, None


def judge_copy(kind, src, route, ctx, case, sig, title, nontrivial, flags=(), interesting=False, bystanders=(), fn=None):
    """Applies one copy route to the live object `src` and judges the copy with all E1 oracles
    (no exception, source unchanged, oracle 1 equality in the route's view, documented-shared
    parts identical, oracle 2 reachability).  `sig(category, detail, raises)` builds the
    signature, `title` names the case in messages.  `bystanders`: [(name, kind, object)] that
    must not change either (earlier objects of a copy sequence).
    Returns None or (copy, source snapshot, copy snapshot, equal)."""
    fam = family(kind, route)
    s0, I0 = snapshot(kind, src)
    before = [(nm, k, o, snapshot(k, o)[0]) for nm, k, o in bystanders]
    try:
        if fn is not None:
            with warnings.catch_warnings():
                warnings.simplefilter("ignore")
                cp = fn(src)
        else:
            cp = apply_route(src, route)
    except Exception as e:
        ctx.violation(sig("copy-raises", type(e).__name__, True), "%s raised %r" % (title, e), case)
        return None
    s0b, _ = snapshot(kind, src)
    d = diff(s0, s0b)
    if d:
        ctx.violation(sig("source-changed", keypath(d[0])),
                      "%s changed its source at %s: %s -> %s" % (title, "/".join(d[0]), brief(d[1]), brief(d[2])), case)
    for nm, k, o, sb in before:
        d = diff(sb, snapshot(k, o)[0])
        if d:
            ctx.violation(sig("bystander-changed", keypath(d[0])),
                          "%s changed %s at %s: %s -> %s" % (title, nm, "/".join(d[0]), brief(d[1]), brief(d[2])), case)
    if fam == "identity":
        if cp is not src:
            ctx.violation(sig("identity"), "%s: clone(1) of a namespace is documented to be the namespace itself" % title, case)
        return None
    if cp is None or type(cp) is not type(src):
        ctx.violation(sig("copy-type"), "%s returned %r" % (title, type(cp).__name__), case)
        return None
    if cp is src:
        ctx.violation(sig("copy-is-source"), "%s returned the source object itself" % title, case)
        return None
    # oracle 1
    try:
        s1, I1 = snapshot(kind, cp)
        wc = walk(cp, kind)
    except Exception as e:
        ctx.violation(sig("malformed-copy", type(e).__name__), "%s cannot be inspected: %r" % (title, e), case)
        return None
    if I1.alias_hits:
        ctx.count("observed_owner_is_phantom_sharing_the_copys_dict")
    ctx.maximum("unknown_private_fields_seen", len(I0.private | I1.private))
    a, b = view(kind, s0, fam), view(kind, s1, fam)
    if route == "ctor_label":
        a = copy.deepcopy(a)
        a["ns"]["label"] = "relabelled"
        for it in (a["ns"]["annotations"] or {}).get("items", ()):
            if it.get("bound_attr") == "label":
                it["value"] = "relabelled"
    d = diff(a, b)
    equal0 = d is None
    if d:
        ctx.violation(sig("unequal", keypath(d[0])),
                      "%s differs from its source at %s: source %s, copy %s" % (title, "/".join(d[0]), brief(d[1]), brief(d[2])), case)
    if fam == "extract":
        for p in extract_only_problems(cp):
            ctx.violation(sig("extract-copies-more", p.split()[0]), "extract_tree (%s): %s" % (title, p), case)
    # oracle 2
    for what, msg in identity_problems(kind, src, cp, fam):
        ctx.violation(sig("identity", what), "%s: %s" % (title, msg), case)
    ws = walk(src, kind)
    allowed = allowed_shared(kind, src, fam)
    bad = [k for k in wc if k in ws and k not in allowed]
    ctx.count("reachability_comparisons")
    ctx.maximum("max_reachable_mutable_objects", len(ws))
    if nontrivial and (interesting or (len(flags) >= 3 and fam != "deep")):
        ctx.sample({"state": title, "documented_depth": fam,
                    "mutable_objects_reachable_from_source": len(ws), "from_copy": len(wc),
                    "reachable_from_both": len([k for k in wc if k in ws]), "of_which_documented_shared": len([k for k in wc if k in ws and k in allowed]),
                    "snapshots_equal": equal0}, 2)
    if bad:
        # shortest path first (BFS order of wc)
        k = bad[0]
        ctx.violation(sig("shared", short_path(wc[k][1])),
                      "%s: %d mutable object(s) are reachable from both copy and source beyond the documented shared "
                      "part, first: %s reached from the copy as %s and from the source as %s" % (
                          title, len(bad), type(wc[k][0]).__name__, wc[k][1], ws[k][1]), case)
    if kind == "matrix" and fam in ("ctor", "newns") and "state_alphabets" in src.__dict__:
        if [id(x) for x in src.state_alphabets] != [id(x) for x in cp.state_alphabets]:
            ctx.count("observed_ctor_matrix_copy_has_other_state_alphabets")
    return cp, s0, s1, equal0


def _suffix(desc):
    """signature suffix for the degenerate sources"""
    d = desc.get("degenerate")
    if not d:
        return ""
    if desc["kind"] in ("treelist", "matrix") or d in ("bare", "taxonless3"):
        return "|empty-namespace"
    return "|degenerate-source"


def _grow(kind, obj, label="zzgrown"):
    """adds a taxon to obj's namespace and something carrying it that belongs to obj alone"""
    ns = obj._taxon_namespace
    t = ns.new_taxon(label)
    if kind == "tree":
        obj.seed_node.new_child(taxon=t, edge_length=3.0)
    elif kind == "treelist":
        nt = dendropy.Tree(taxon_namespace=ns)
        nt.seed_node.new_child(taxon=t, edge_length=3.0)
        obj.append(nt)
    else:
        obj.new_sequence(t, [_new_value(obj, None)] * 2)
    return t


def growth_probe(desc, chain, ctx, s_src0, s_cp0):
    """later-mutation probe 'the namespace grows': a taxon is added to the namespace of one side
    (and a node / tree / row carrying it).  A copy that documents a shared namespace must see
    the very Taxon in ITS namespace (and nothing else changes); a deep copy must see nothing."""
    kind = desc["kind"]
    if kind == "ns":
        return   # ns_add of the mutation alphabet
    fam = family(kind, chain[-1])
    sr = sig_route(kind, chain)
    suf = _suffix(desc)
    for side in ("source", "copy"):
        case = {"kind": "growth", "obj": desc, "chain": list(chain)}
        ctx.case(("growth", _key(desc), tuple(chain), side), nontrivial=_nontrivial(desc))
        ctx.count("transitions")
        ctx.count("transitions_namespace_growth_probe")
        src, cp, err = make_pair(desc, chain)
        if err:
            return
        target, other = (src, cp) if side == "source" else (cp, src)
        try:
            with warnings.catch_warnings():
                warnings.simplefilter("ignore")
                t = _grow(kind, target)
        except Exception:
            ctx.count("mutation_raised")
            continue
        title = "%s of %s; then a taxon (and something carrying it) is added to the %s's namespace" % (
            chain_name(chain), describe(desc), side)
        so, _ = snapshot(kind, other)
        before = s_cp0 if side == "source" else s_src0
        d = diff(body(kind, before, fam), body(kind, so, fam))
        if d:
            ctx.violation("growth|%s|%s|visible%s" % (kind, sr, suf),
                          "%s: visible in the %s at %s: %s -> %s" % (title, "copy" if side == "source" else "source",
                                                                    "/".join(d[0]), brief(d[1]), brief(d[2])), case)
        if fam not in ("deep", "newns"):
            ons = other.__dict__.get("_taxon_namespace")
            if ons is None or not any(x is t for x in ons._taxa):
                ctx.violation("growth|%s|%s|namespace-not-shared%s" % (kind, sr, suf),
                              "%s: the new taxon is not in the namespace of the %s, which is documented to share the "
                              "namespace" % (title, "copy" if side == "source" else "source"), case)


def check_state(desc, chain, ctx, with_mutations=False, only_mutation=None):
    """E1 oracles for one (object, route chain); optionally the E2 mutation layer"""
    kind = desc["kind"]
    route = chain[-1]
    case = {"kind": "state", "obj": desc, "chain": list(chain)}
    nontrivial = _nontrivial(desc)
    ctx.case(("state", _key(desc), tuple(chain)), nontrivial=nontrivial)
    ctx.count("states")
    ctx.count("states_%s" % kind)
    if len(chain) > 1:
        ctx.count("states_copy_of_copy")
    # source
    src = BUILDERS[kind](desc)
    for r in chain[:-1]:
        try:
            src = apply_route(src, r)
        except Exception:
            ctx.count("chain_source_not_constructible")
            return  # reported by the shorter chain

    def sig(cat, detail=None, raises=False):
        if cat == "extract-copies-more":
            return "extract-copies-more|%s" % detail
        parts = [cat, kind, sig_route(kind, chain, raises)]
        if detail is not None:
            parts.append(detail)
        return "|".join(parts) + _suffix(desc)
    res = judge_copy(kind, src, route, ctx, case, sig, "%s of %s" % (chain_name(chain), describe(desc)), nontrivial,
                     desc.get("flags", ()), len(chain) > 1 or bool(desc.get("degenerate")))
    if res is not None and with_mutations:
        _cp, s0, s1, equal0 = res
        if only_mutation != "growth":
            run_mutations(desc, chain, ctx, s0, s1, only_mutation, equal0)
        if only_mutation in (None, "growth"):
            growth_probe(desc, chain, ctx, s0, s1)


# ---------------------------------------------------------------------------
# copy sequences: 2 and 3 copy operations, each taken from the original, from the result of an
# earlier step or from the namespace of either; the LAST copy of every sequence is judged (its
# prefixes are sequences of their own).  State that a copy leaves behind - on the source, on
# the namespace, in a module - and that a later copy trusts shows up here.

SEQ_OBJECTS = {
    "quick": [
        {"kind": "tree", "n": 2, "si": 0, "rooted": True, "flags": []},
        {"kind": "treelist", "members": [1], "flags": []},
        {"kind": "matrix", "dtype": "dna", "rows": 1, "flags": []},
        {"kind": "ns", "ntax": 2, "cfg": "plain", "flags": [], "bitmasks": False},
    ],
    "thorough": [
        {"kind": "tree", "n": 2, "si": 0, "rooted": True, "flags": []},
        {"kind": "tree", "n": 3, "si": 0, "rooted": False, "flags": ["ann", "bip"]},
        {"kind": "treelist", "members": [1], "flags": []},
        {"kind": "treelist", "members": [0, 1], "flags": ["ann"]},
        {"kind": "matrix", "dtype": "dna", "rows": 1, "flags": []},
        {"kind": "matrix", "dtype": "standard", "rows": 3, "flags": ["ann", "sub"]},
        {"kind": "ns", "ntax": 2, "cfg": "plain", "flags": [], "bitmasks": False},
        {"kind": "ns", "ntax": 3, "cfg": "removed_low", "flags": ["ann"], "bitmasks": True},
    ],
}
# every route of the menu is used in every position of a sequence, in both tiers
SETUP_SKIP_QUICK = ()
PROBE_MUTATIONS = {"tree": (["tree_label"], ["node_label", 0], ["new_child", 0], ["ann_add", ["tree"]], ["ns_add"], ["taxon_label", 0]),
                   "treelist": (["list_label"], ["list_append"], ["member", 0, "node_label", 0], ["ann_add", ["list"]], ["ns_add"],
                                ["taxon_label", 0]),
                   "matrix": (["matrix_label"], ["row_del", 0], ["cell_set", 0, 0], ["ann_add", ["matrix"]], ["ns_add"],
                              ["taxon_label", 0]),
                   "ns": (["ns_label"], ["ns_add"], ["ns_remove", 0], ["taxon_label", 0], ["ann_add", ["ns"]])}


def _probe_category(kind, m):
    n = m[0]
    if n.startswith("taxon_"):
        return "taxon"
    if n.startswith("ns_"):
        return "own" if kind == "ns" else "ns"
    if n in ("member", "cell_set"):
        return "member"
    return "own"


def seq_sources(kind, objs):
    """objs: the original followed by the results of the executed steps (None = step failed).
    Returns [(spec, kind, object)] of distinct live sources: ["orig"], ["nsof","orig"], ["res", j],
    ["nsof", j]; an object that IS an earlier source is not listed twice."""
    out = []
    seen = set()

    def add(spec, k, o):
        if o is None or id(o) in seen:
            return
        seen.add(id(o))
        out.append((spec, k, o))
    for j, (k, o) in enumerate(objs):
        if o is None:
            continue
        add(["orig"] if j == 0 else ["res", j], k, o)
        if k != "ns":
            add(["nsof", "orig"] if j == 0 else ["nsof", j], "ns", o.__dict__.get("_taxon_namespace"))
    return out


def seq_execute(desc, steps):
    """fresh original + the given steps.  Returns objs = [(kind, object-or-None)]"""
    kind = desc["kind"]
    objs = [(kind, BUILDERS[kind](desc))]
    for spec, route in steps:
        srcs = seq_sources(kind, objs)
        hit = [(k, o) for sp, k, o in srcs if sp == spec]
        if not hit:
            objs.append((kind, None))
            continue
        k, o = hit[0]
        try:
            objs.append((k, apply_route(o, route)))
        except Exception:
            objs.append((k, None))
    return objs


def seq_options(desc, steps, tier, judged):
    """every (source spec, route) that can follow the executed prefix `steps`"""
    kind = desc["kind"]
    objs = seq_execute(desc, steps)
    if any(o is None for _k, o in objs):
        return []
    out = []
    for spec, k, _o in seq_sources(kind, objs):
        for r in routes_of(k):
            if not judged and tier == "quick" and r in SETUP_SKIP_QUICK:
                continue
            out.append([spec, r])
    return out


def _srcname(spec):
    if spec == ["orig"]:
        return "X"
    if spec == ["nsof", "orig"]:
        return "ns(X)"
    if spec[0] == "res":
        return "r%d" % spec[1]
    return "ns(r%d)" % spec[1]


def seq_name(steps):
    return "; ".join("r%d=%s(%s)" % (i + 1, r, _srcname(spec)) for i, (spec, r) in enumerate(steps))


class _Buffer(object):
    """forwards coverage to the real Ctx, keeps violations back (signature = (category, detail))"""

    def __init__(self, ctx=None):
        self.ctx = ctx
        self.viol = []

    def violation(self, key, message, case):
        self.viol.append((key, message))

    def count(self, name, n=1):
        if self.ctx is not None:
            self.ctx.count(name, n)

    def maximum(self, name, v):
        if self.ctx is not None:
            self.ctx.maximum(name, v)

    def sample(self, obj, limit=4):
        if self.ctx is not None:
            self.ctx.sample(obj, limit)


def _catkey(cat, detail=None, raises=False):
    return (cat, detail, raises)


def derivation(steps):
    """the steps the judged (last) copy depends on - those that produced its source - renumbered"""
    need = set()

    def mark(k):  # k: 1-based step number
        if k in need:
            return
        need.add(k)
        sp = steps[k - 1][0]
        if sp[0] == "res" or (sp[0] == "nsof" and sp[1] != "orig"):
            mark(sp[1])
    mark(len(steps))
    order = sorted(need)
    renum = {old: new + 1 for new, old in enumerate(order)}
    out = []
    for k in order:
        sp, r = steps[k - 1]
        if sp[0] == "res" or (sp[0] == "nsof" and sp[1] != "orig"):
            sp = [sp[0], renum[sp[1]]]
        out.append([list(sp), r])
    return out


def shorten(steps):
    """the sequence without its first step; references to that step's result go to its source"""
    sp1 = steps[0][0]
    out = []
    for sp, r in steps[1:]:
        if sp[0] == "res":
            sp = list(sp1) if sp[1] == 1 else ["res", sp[1] - 1]
        elif sp[0] == "nsof" and sp[1] != "orig":
            sp = ["nsof", "orig"] if sp[1] == 1 else ["nsof", sp[1] - 1]
        out.append([list(sp), r])
    return out


def _seq_source(desc, steps):
    """executes steps[:-1]; returns (kind, source object, objs, sources) of the last step or None"""
    objs = seq_execute(desc, steps[:-1])
    if any(o is None for _k, o in objs):
        return None
    srcs = seq_sources(desc["kind"], objs)
    hit = [(k, o) for sp, k, o in srcs if sp == steps[-1][0]]
    if not hit:
        return None
    return hit[0][0], hit[0][1], objs, srcs


def check_sequence(desc, steps, ctx, tier="quick"):
    """executes steps[:-1] on a fresh original and judges the last step.  A verdict that the
    last copy also earns without the side steps (only the steps that produced its source) or,
    for a plain chain of copies, with one copy less, does not depend on the history: it is
    reported under the ordinary single-copy signature; only a verdict that needs the whole
    sequence gets a copy-sequence signature."""
    kind = desc["kind"]
    steps = [[list(sp), r] for sp, r in steps]
    case = {"kind": "sequence", "obj": desc, "steps": steps, "tier": tier}
    ctx.case(("seq", _key(desc), tuple((tuple(sp), r) for sp, r in steps)), nontrivial=True)
    ctx.count("states")
    ctx.count("states_copy_sequence")
    ctx.count("copy_sequences_of_length_%d" % len(steps))
    got = _seq_source(desc, steps)
    if got is None:
        ctx.count("sequence_prefix_not_executable")
        return
    skind, src, objs, srcs = got
    spec, route = steps[-1]
    # kinds of the steps: documented depth of each route for the kind of object it was applied to
    fams = [family(objs[j + 1][0], r) for j, (sp, r) in enumerate(steps[:-1])] + [family(skind, route)]
    famchain = "->".join(fams)
    title = "[%s] on X = %s" % (seq_name(steps), describe(desc))
    by = [(_srcname(sp), k, o) for sp, k, o in srcs if o is not src and k != "ns"]
    buf = _Buffer(ctx)
    res = judge_copy(skind, src, route, buf, case, _catkey, title, True, (), len(steps) == 3 and spec[0] == "res", by)
    if buf.viol:
        base = set()
        dsteps = derivation(steps)
        if len(dsteps) == len(steps):
            dsteps = shorten(steps)               # no side steps: a plain chain of copies - try one copy less
        g2 = _seq_source(desc, dsteps)
        if g2 is not None and g2[0] == skind:
            b2 = _Buffer()
            judge_copy(g2[0], g2[1], route, b2, case, _catkey, title, True)
            base = set(k for k, _m in b2.viol)
        prov = [steps[spec[1] - 1][1]] if spec[0] == "res" else []
        for key, msg in buf.viol:
            cat, detail, raises = key
            if key in base:
                if cat == "extract-copies-more":
                    sg = "extract-copies-more|%s" % detail
                else:
                    sg = "|".join([cat, skind, sig_route(skind, prov + [route], raises)] + ([detail] if detail is not None else []))
            else:
                sg = "copy-sequence|%s|%s|%s" % (famchain, kind if skind == kind else "%s.%s" % (kind, skind),
                                                 cat if detail is None else "%s:%s" % (cat, detail))
            ctx.violation(sg, msg, case)

    def sig(cat, detail=None, raises=False):
        return "copy-sequence|%s|%s|%s" % (famchain, kind if skind == kind else "%s.%s" % (kind, skind),
                                           cat if detail is None else "%s:%s" % (cat, detail))
    if res is None or tier == "quick":
        return
    # thorough: a few probe mutations on either side of the judged pair
    fam = family(skind, route)
    sh = shared_categories(skind, fam)
    _cp, s_src0, s_cp0, _eq = res
    b0 = {"source": body(skind, s_cp0, fam), "copy": body(skind, s_src0, fam)}
    for m in PROBE_MUTATIONS[skind]:
        for side in ("source", "copy"):
            objs = seq_execute(desc, steps)
            if any(o is None for _k, o in objs):
                continue
            hit = [(k, o) for sp, k, o in seq_sources(kind, objs[:-1]) if sp == spec]
            if not hit:
                continue
            s2, c2 = hit[0][1], objs[-1][1]
            target, other = (s2, c2) if side == "source" else (c2, s2)
            if _probe_category(skind, m) in sh:
                continue
            ctx.count("transitions")
            ctx.count("transitions_copy_sequence")
            try:
                with warnings.catch_warnings():
                    warnings.simplefilter("ignore")
                    apply_mutation(skind, target, m)
            except Exception:
                ctx.count("mutation_raised")
                continue
            d = diff(b0[side], body(skind, snapshot(skind, other)[0], fam))
            if d:
                ctx.violation(sig("visible", mutation_class(m)),
                              "%s: %s applied to the %s of the last copy is visible on the other side at %s: %s -> %s" % (
                                  title, m, side, "/".join(d[0]), brief(d[1]), brief(d[2])), case)


# ---------------------------------------------------------------------------
# copies that share ONE caller-supplied memo: x.taxon_namespace_scoped_copy(memo=M) and
# copy.deepcopy(x, M) on three objects A, B, C (C of A's kind) of one namespace, 2-3 copies, optionally with the
# namespace growing (a new taxon carried by a new leaf / row of A and B) between two copies.
#
# What is decided.  taxon_namespace_scoped_copy's docstring promises without reservation that
# "all member objects are full independent instances, except for TaxonNamespace and Taxon
# objects: these are preserved as references"; nothing is said about memo, so a sequence of
# scoped copies only is judged by the namespace-scoped oracles whatever the memo has seen.
# copy.deepcopy(x, memo) has Python's documented memo semantics (what the memo already maps is
# not copied again), so its result legitimately depends on the memo's history: a deep copy is
# judged only when every earlier use of M was a deep copy and the namespace did not grow;
# every other combination (deep and scoped mixed in one memo, an object copied twice with the
# same memo - the memo hands back the earlier copy) is executed and counted, never decided.

MEMO_KINDS = ("tree", "treelist", "matrix")


def memo_build(kind, ns, tag):
    if kind == "tree":
        t = build.build_tree((True, ref.mk(U.shapes(2)[0], lens=1.0)), ns)
        t.label = tag
        return t
    if kind == "treelist":
        tl = dendropy.TreeList(taxon_namespace=ns, label=tag)
        tl.append(build.build_tree((True, ref.mk(U.shapes(3)[0], lens=1.0)), ns))
        return tl
    m = dendropy.DnaCharacterMatrix(taxon_namespace=ns, label=tag)
    for t, row in zip(ns._taxa[:2], ("ACGT", "A-TN")):
        m.new_sequence(t, m.coerce_values(row))
    return m


def memo_grow(kind, obj, taxon):
    if kind == "tree":
        obj.seed_node.new_child(taxon=taxon, edge_length=2.0)
    elif kind == "treelist":
        obj._trees[0].seed_node.new_child(taxon=taxon, edge_length=2.0)
    else:
        obj.new_sequence(taxon, obj.coerce_values("GG"))


def memo_event_name(ev):
    if ev[0] == "grow":
        return "grow"
    return "%s(%s,M)" % ("scoped" if ev[2] == "scoped" else "deepcopy", ev[1])


def memo_sequences():
    """event lists: 2-3 copies (object A|B x scoped|deep), optionally 'grow' before any later copy"""
    out = []
    copies = [["copy", w, r] for w in ("A", "B", "C") for r in ("scoped", "deep")]
    for k in (2, 3):
        for cs in itertools.product(copies, repeat=k):
            for gaps in itertools.product((False, True), repeat=k - 1):
                ev = [list(cs[0])]
                for g, c in zip(gaps, cs[1:]):
                    if g:
                        ev.append(["grow"])
                    ev.append(list(c))
                out.append(ev)
    return out


def check_memo_sequence(ka, kb, events, ctx):
    case = {"kind": "memoseq", "A": ka, "B": kb, "events": [list(e) for e in events]}
    ctx.case(("memoseq", ka, kb, tuple(tuple(e) for e in events)), nontrivial=True)
    ctx.count("states")
    ctx.count("states_shared_memo_sequence")
    ns, _bit = build.make_namespace(U.LABELS[:3], "exact")
    objs = {"A": (ka, memo_build(ka, ns, "A")), "B": (kb, memo_build(kb, ns, "B")), "C": (ka, memo_build(ka, ns, "C"))}
    M = {}
    fns = {"scoped": lambda x: x.taxon_namespace_scoped_copy(memo=M), "deep": lambda x: copy.deepcopy(x, M)}
    earlier = []      # (who, route, result)
    grown = 0
    for ev in events[:-1]:
        if ev[0] == "grow":
            grown += 1
            t = ns.new_taxon("grown%d" % grown)
            for k, o in objs.values():
                memo_grow(k, o, t)
            continue
        k, o = objs[ev[1]]
        try:
            with warnings.catch_warnings():
                warnings.simplefilter("ignore")
                earlier.append((ev[1], ev[2], fns[ev[2]](o)))
        except Exception:
            ctx.count("shared_memo_prefix_not_executable")
            return
    _c, who, route = events[-1]
    kind, src = objs[who]
    routes_before = set(r for _w, r, _o in earlier)
    again = any(w == who for w, _r, _o in earlier)
    if again:
        deciding = False
        why = "object_copied_before_with_this_memo"
    elif route == "scoped":
        deciding = routes_before <= {"scoped"}
        why = "scoped_copy_after_deep_copy_in_one_memo"
    else:
        deciding = routes_before <= {"deep"} and not grown
        why = "deep_copy_with_used_memo_after_scoped_copy_or_growth"
    chain = "->".join(memo_event_name(e).split("(")[0] if e[0] != "grow" else "grow" for e in events)
    title = "[M={}; %s] with A=%s, B=%s, C=%s in one namespace" % ("; ".join(memo_event_name(e) for e in events), ka, kb, ka)

    def sig(cat, detail=None, raises=False):
        return "copy-sequence|memo-shared|%s|%s|%s" % (chain, kind, cat if detail is None else "%s:%s" % (cat, detail))
    rname = "scoped_memo" if route == "scoped" else "deepcopy_memo"
    if not deciding:
        ctx.count("shared_memo_not_decided_" + why)
        buf = _Buffer()
        judge_copy(kind, src, rname, buf, case, sig, title, True, fn=fns[route])
        if buf.viol:
            ctx.count("observed_undecided_shared_memo_copy_deviates")
        return
    ctx.count("shared_memo_sequences_decided")
    by = [(w, k, o) for w, (k, o) in objs.items() if w != who]
    by += [("copy %d" % (i + 1), objs[w][0], o) for i, (w, _r, o) in enumerate(earlier)]
    judge_copy(kind, src, rname, ctx, case, sig, title, True, (), grown > 0, by, fn=fns[route])


def run_memo_chunk(chunk, ctx):
    for ev in memo_sequences():
        check_memo_sequence(chunk["A"], chunk["B"], ev, ctx)
    ctx.sample({"shared_memo_sequences_for": "A=%s, B=%s, C=%s" % (chunk["A"], chunk["B"], chunk["A"]),
                "example": "; ".join(memo_event_name(e) for e in memo_sequences()[-1])}, 1)


def sequence_chunks(tier):
    out = []
    for d in SEQ_OBJECTS[tier]:
        for first in seq_options(d, [], tier, False):
            out.append({"what": "seq", "obj": d, "first": first, "tier": tier})
    return out


def run_sequences(chunk, ctx):
    d, first, tier = chunk["obj"], chunk["first"], chunk["tier"]
    # length 2: the second copy is judged (the first one alone is a state of the E1 layer)
    for o2 in seq_options(d, [first], tier, True):
        check_sequence(d, [first, o2], ctx, tier)
    # length 3
    for s2 in seq_options(d, [first], tier, False):
        for o3 in seq_options(d, [first, s2], tier, True):
            check_sequence(d, [first, s2, o3], ctx, tier)


def _side_mutations(kind, obj, fam):
    sh = shared_categories(kind, fam)
    return [m for m, cat in mutations(kind, obj) if cat not in sh]


def run_mutations(desc, chain, ctx, s_src0, s_cp0, only=None, equal0=True):
    kind = desc["kind"]
    fam = family(kind, chain[-1])
    sr = sig_route(kind, chain)
    suf = _suffix(desc)
    src, cp, err = make_pair(desc, chain)
    if err:
        return
    m_src = _side_mutations(kind, src, fam)
    m_cp = _side_mutations(kind, cp, fam)
    if only is not None:
        m_src = [m for m in m_src if m == only]
        m_cp = [m for m in m_cp if m == only]
    in_cp = set(_mkey(m) for m in m_cp)
    nontrivial = _nontrivial(desc)
    b_src0, b_cp0 = body(kind, s_src0, fam), body(kind, s_cp0, fam)
    after_src = {}
    for side, muts in (("source", m_src), ("copy", m_cp)):
        for m in muts:
            case = {"kind": "mutation", "obj": desc, "chain": list(chain), "mutation": m}
            ctx.case(("mut", _key(desc), tuple(chain), _mkey(m), side), nontrivial=nontrivial)
            ctx.count("transitions")
            ctx.count("transitions_%s" % kind)
            src, cp, err = make_pair(desc, chain)
            target, other = (src, cp) if side == "source" else (cp, src)
            exc = None
            try:
                with warnings.catch_warnings():
                    warnings.simplefilter("ignore")
                    apply_mutation(kind, target, m)
            except Exception as e:
                exc = e
            if exc is not None:
                ctx.count("mutation_raised")
                if side == "source":
                    after_src[_mkey(m)] = ("exc", type(exc).__name__)
                else:
                    prev = after_src.get(_mkey(m))
                    if prev is not None and prev != ("exc", type(exc).__name__):
                        ctx.violation("mutation-raises-on-copy-only|%s|%s|%s|%s%s" % (kind, sr, mutation_class(m), type(exc).__name__, suf),
                                      "%s on the %s copy of %s raised %r but works on the source" % (m, chain_name(chain), describe(desc), exc), case)
                continue
            if nontrivial:
                ctx.sample({"transition": m, "applied_to": side, "of_pair": "%s / its %s copy" % (describe(desc), chain_name(chain))}, 3)
            so, _ = snapshot(kind, other)
            d = diff(b_cp0 if side == "source" else b_src0, body(kind, so, fam))
            mname = mutation_class(m)
            if d:
                ctx.violation("visible|%s|%s|%s%s" % (kind, sr, mname, suf),
                              "%s applied to the %s is visible in the %s (%s of %s) at %s: %s -> %s" % (
                                  m, side, "copy" if side == "source" else "source", chain_name(chain), describe(desc),
                                  "/".join(d[0]), brief(d[1]), brief(d[2])), case)
            st, _ = snapshot(kind, target)
            if side == "source":
                if _mkey(m) in in_cp:
                    after_src[_mkey(m)] = ("ok", view(kind, st, fam))
            else:
                prev = after_src.get(_mkey(m))
                if prev is None:
                    continue
                if prev[0] == "exc":
                    ctx.violation("mutation-raises-on-source-only|%s|%s|%s%s" % (kind, sr, mname, suf),
                                  "%s raised %s on the source but works on its %s copy" % (m, prev[1], chain_name(chain)), case)
                    continue
                a, b = prev[1], view(kind, st, fam)
                if chain[-1] == "ctor_label" or not equal0:
                    # the pair already differs before the mutation (reported by oracle 1 / by design)
                    ctx.count("differential_skipped_pair_unequal_before")
                    continue
                d = diff(a, b)
                ctx.count("differential_comparisons")
                if d:
                    ctx.violation("diverges|%s|%s|%s%s" % (kind, sr, mname, suf),
                                  "%s has a different effect on the %s copy than on the source %s at %s: source %s, copy %s" % (
                                      m, chain_name(chain), describe(desc), "/".join(d[0]), brief(d[1]), brief(d[2])), case)


def _mkey(m):
    return tuple(tuple(x) if isinstance(x, list) else x for x in m)


def mutation_class(m):
    """coarse class of a mutation for signatures (the message names the exact mutation)"""
    name = m[2] if m[0] == "member" else m[0]
    pre = "member-tree-" if m[0] == "member" else ""
    if name.startswith("ann_") or name.startswith("cell_ann"):
        c = "annotation"
    elif name.endswith("_comment"):
        c = "comment"
    elif name in ("encode", "bip_edit", "remove_child_encode", "ns_bitmask"):
        c = "bipartitions"
    elif name.endswith("_extra") or name.endswith("_attr"):
        c = "attribute"
    elif name.startswith("taxon_"):
        c = "taxon"
    elif name.startswith("ns_"):
        c = "namespace"
    elif name.endswith("_label"):
        c = "label"
    elif name in ("edge_length", "tree_weight"):
        c = "length"
    elif name.startswith("list_"):
        c = "membership"
    elif name.startswith("row_") or name == "matrix_clear":
        c = "rows"
    elif name.startswith("cell_") or name.startswith("seq_"):
        c = "sequence"
    elif name.startswith("ctype_"):
        c = "character-types"
    elif name.startswith("subset_"):
        c = "character-subsets"
    else:
        c = "structure"
    return pre + c


def _key(desc):
    return tuple(sorted((k, tuple(v) if isinstance(v, list) else v) for k, v in desc.items()))


def _nontrivial(desc):
    k = desc["kind"]
    if desc.get("degenerate"):
        return True   # the degenerate sources are the point of their layer
    if k == "tree":
        return desc["n"] >= 2
    if k == "treelist":
        return len(desc["members"]) >= 1
    if k == "matrix":
        return desc["rows"] >= 1
    return desc["ntax"] >= 1


def describe(desc):
    k = desc["kind"]
    if desc.get("degenerate"):
        return "degenerate %s '%s'%s decorations=%s" % (
            {"tree": "tree", "treelist": "tree list", "matrix": desc.get("dtype", "") + " matrix", "ns": "namespace"}[k],
            desc["degenerate"], " rooted=%r" % desc["rooted"] if k == "tree" else "", "+".join(desc["flags"]) or "none")
    if k == "tree":
        return "tree %s rooted=%r decorations=%s%s" % (ref.to_newick(ref.mk(U.shapes(desc["n"])[desc["si"]]), False), desc["rooted"],
                                                     "+".join(desc["flags"]) or "none",
                                                     "" if desc.get("nscfg", "exact") == "exact" else " ns=" + desc["nscfg"])
    if k == "treelist":
        return "tree list of pool trees %s decorations=%s" % (desc["members"], "+".join(desc["flags"]) or "none")
    if k == "matrix":
        return "%s matrix with %d rows decorations=%s" % (desc["dtype"], desc["rows"], "+".join(desc["flags"]) or "none")
    return "namespace of %d taxa (%s) decorations=%s" % (desc["ntax"], desc["cfg"], "+".join(desc["flags"]) or "none")


# ---------------------------------------------------------------------------
# universe per tier

def flag_subsets(flags):
    out = []
    for k in range(len(flags) + 1):
        for c in itertools.combinations(flags, k):
            out.append(list(c))
    return out


def tree_objects(n, si, tier):
    out = []
    for rooted in (True, False, None):
        for fl in flag_subsets(FLAGS):
            out.append({"kind": "tree", "n": n, "si": si, "rooted": rooted, "flags": fl})
        for cfg in ("extra_low", "removed_low", "sorted_after"):
            for fl in ([], list(FLAGS)):
                out.append({"kind": "tree", "n": n, "si": si, "rooted": rooted, "flags": fl, "nscfg": cfg})
        for fl in ([], list(FLAGS)):
            out.append({"kind": "tree", "n": n, "si": si, "rooted": rooted, "flags": fl, "inttax": True})
    return out


def treelist_objects(tier):
    maxlen = 2 if tier == "quick" else 3
    pool = range(3 if tier == "quick" else 4)
    out = []
    for k in range(maxlen + 1):
        for members in itertools.product(pool, repeat=k):
            for fl in ([], ["len", "com", "ann", "extra"], ["ann"], ["com"]):
                d = {"kind": "treelist", "members": list(members), "flags": fl}
                out.append(d)
                if "ann" in fl and k:
                    out.append(dict(d, bound_member=True))
    return out


def matrix_objects(tier):
    out = []
    for dtype in ("dna", "standard", "continuous"):
        for rows in (0, 1, 3):
            for fl in flag_subsets(["len", "com", "ann", "ct", "sub", "extra"]):
                if rows == 0 and "ct" in fl:
                    continue
                out.append({"kind": "matrix", "dtype": dtype, "rows": rows, "flags": fl})
    return out


def ns_objects(tier):
    out = []
    for k in range(0, 4):
        for cfg in ("plain", "removed_low", "sorted_after", "extra_low"):
            if k == 0 and cfg != "plain":
                continue
            for fl in flag_subsets(["len", "com", "ann", "extra"]):
                for bm in (False, True):
                    out.append({"kind": "ns", "ntax": k, "cfg": cfg, "flags": fl, "bitmasks": bm})
    return out


def degenerate_objects(tier):
    full = ["len", "com", "ann", "extra"]
    out = []
    for d in DEGENERATE["tree"]:
        for rooted in (True, False, None):
            for fl in ([], full):
                out.append({"kind": "tree", "degenerate": d, "rooted": rooted, "flags": fl})
    for d in DEGENERATE["treelist"]:
        for fl in ([], full, ["ann"]):
            out.append({"kind": "treelist", "degenerate": d, "flags": fl})
    for dtype in ("dna", "standard", "continuous"):
        for fl in ([], ["len", "com", "ann", "sub", "extra"]):
            out.append({"kind": "matrix", "degenerate": "no_rows_empty_namespace", "dtype": dtype, "rows": 0, "flags": fl})
    for d in DEGENERATE["ns"]:
        for fl in ([], full):
            for bm in (False, True):
                out.append({"kind": "ns", "degenerate": d, "flags": fl, "bitmasks": bm})
    return out


def chains2(kind):
    rs = routes_of(kind)
    return [[a, b] for a in rs for b in rs if not (kind == "ns" and a == "clone1")]


def mutation_tree_objects(tier):
    nall = 3 if tier == "quick" else 4
    out = []
    for n in range(1, nall + 1):
        for si in range(len(U.shapes(n))):
            for rooted in (True, False):
                out.append({"kind": "tree", "n": n, "si": si, "rooted": rooted, "flags": list(FLAGS)})
                out.append({"kind": "tree", "n": n, "si": si, "rooted": rooted, "flags": []})
            out.append({"kind": "tree", "n": n, "si": si, "rooted": None, "flags": ["ann", "bip"]})
    n = nall + 1
    for si, shape in enumerate(U.shapes(n)):
        if tier == "quick" or U.is_binary(shape):
            out.append({"kind": "tree", "n": n, "si": si, "rooted": True, "flags": list(FLAGS)})
    return out


def chunks(tier):
    q = tier == "quick"
    out = []
    # E1 trees
    for n in range(1, (4 if q else 5) + 1):
        for si in range(len(U.shapes(n))):
            out.append({"what": "tree_states", "n": n, "si": si, "tier": tier})
    # E1 copies of copies
    for n in range(1, (3 if q else 4) + 1):
        for si in range(len(U.shapes(n))):
            out.append({"what": "tree_chains", "n": n, "si": si, "tier": tier})
    # E2 trees
    for d in mutation_tree_objects(tier):
        if d["n"] >= 4 and d["flags"]:
            for r in TREE_ROUTES:
                out.append({"what": "mut", "obj": d, "routes": [r], "tier": tier})
        else:
            out.append({"what": "mut", "obj": d, "routes": TREE_ROUTES, "tier": tier})
    # other kinds: E1 (+ chains) and E2
    for name, objs in (("treelist", treelist_objects(tier)), ("matrix", matrix_objects(tier)), ("ns", ns_objects(tier))):
        step = {"treelist": 4, "matrix": 12, "ns": 40}[name]
        for lo in range(0, len(objs), step):
            out.append({"what": "states", "kind": name, "lo": lo, "hi": min(len(objs), lo + step), "tier": tier})
    for d in mutation_other_objects(tier):
        out.append({"what": "mut", "obj": d, "routes": routes_of(d["kind"]), "tier": tier})
    out.extend(sequence_chunks(tier))
    for d in degenerate_objects(tier):
        out.append({"what": "degenerate", "obj": d, "tier": tier})
    for ka in MEMO_KINDS:
        for kb in MEMO_KINDS:
            out.append({"what": "memoseq", "A": ka, "B": kb, "tier": tier})
    return out


def mutation_other_objects(tier):
    out = []
    full = ["len", "com", "ann", "extra"]
    for members in [[], [0], [1, 2], [0, 0], [0, 1]] + ([[2, 0, 1]] if tier != "quick" else []):
        out.append({"kind": "treelist", "members": members, "flags": full, "bound_member": False})
        out.append({"kind": "treelist", "members": members, "flags": []})
    for dtype in ("dna", "standard", "continuous"):
        for rows in (0, 3) if tier == "quick" else (0, 1, 3):
            out.append({"kind": "matrix", "dtype": dtype, "rows": rows, "flags": ["len", "com", "ann", "ct", "sub", "extra"] if rows else ["len", "com", "ann", "sub", "extra"]})
            out.append({"kind": "matrix", "dtype": dtype, "rows": rows, "flags": []})
    for k in (0, 1, 3):
        for cfg in ("plain", "removed_low"):
            if k == 0 and cfg != "plain":
                continue
            out.append({"kind": "ns", "ntax": k, "cfg": cfg, "flags": full, "bitmasks": True})
            out.append({"kind": "ns", "ntax": k, "cfg": cfg, "flags": [], "bitmasks": False})
    return out


CHAIN_FLAGSETS = ([], ["ann"], list(FLAGS))


def run_chunk(chunk, ctx):
    what = chunk["what"]
    tier = chunk["tier"]
    if what == "tree_states":
        objs = tree_objects(chunk["n"], chunk["si"], tier)
        for d in objs:
            for r in TREE_ROUTES:
                check_state(d, [r], ctx)
        ctx.count("objects_tree", len(objs))
        ctx.sample({"object": describe(objs[-1]), "routes": TREE_ROUTES}, 1)
    elif what == "tree_chains":
        for rooted in (True, False):
            for fl in CHAIN_FLAGSETS:
                d = {"kind": "tree", "n": chunk["n"], "si": chunk["si"], "rooted": rooted, "flags": fl}
                for ch in chains2("tree"):
                    check_state(d, ch, ctx)
    elif what == "states":
        kind = chunk["kind"]
        objs = {"treelist": treelist_objects, "matrix": matrix_objects, "ns": ns_objects}[kind](tier)[chunk["lo"]:chunk["hi"]]
        for i, d in enumerate(objs):
            for r in routes_of(kind):
                check_state(d, [r], ctx)
            if _chain_object(d):
                for ch in chains2(kind):
                    check_state(d, ch, ctx)
        ctx.count("objects_%s" % kind, len(objs))
        if objs:
            ctx.sample({"object": describe(objs[-1]), "routes": routes_of(kind)}, 1)
    elif what == "mut":
        d = chunk["obj"]
        for r in chunk["routes"]:
            check_state(d, [r], ctx, with_mutations=True)
        ctx.count("objects_mutated")
        ctx.sample({"mutated_object": describe(d), "routes": chunk["routes"],
                    "mutations_enabled_on_source": len(mutations(d["kind"], BUILDERS[d["kind"]](d)))}, 1)
    elif what == "degenerate":
        d = chunk["obj"]
        for r in routes_of(d["kind"]):
            # undecorated: the whole mutation alphabet; decorated: the namespace-growth probe only
            check_state(d, [r], ctx, with_mutations=True, only_mutation=None if not d["flags"] else "growth")
        for ch in chains2(d["kind"]):
            check_state(d, ch, ctx)
        ctx.count("objects_degenerate")
    elif what == "memoseq":
        run_memo_chunk(chunk, ctx)
    elif what == "seq":
        run_sequences(chunk, ctx)
        ctx.sample({"copy_sequences_starting_with": seq_name([chunk["first"]]), "X": describe(chunk["obj"])}, 1)
    else:
        raise ValueError(what)
    return None


def _chain_object(d):
    """objects that also get every ordered pair of routes"""
    k = d["kind"]
    if k == "treelist":
        return len(d["members"]) <= 2 and d["flags"] in ([], ["len", "com", "ann", "extra"], ["ann"])
    if k == "matrix":
        return d["rows"] in (0, 3) and d["flags"] in ([], ["ann"], ["len", "com", "ann", "ct", "sub", "extra"], ["len", "com", "ann", "sub", "extra"])
    return d["flags"] in ([], ["ann"], ["len", "com", "ann", "extra"]) and d["bitmasks"]


def _norm(x):
    if isinstance(x, dict):
        return {k: _norm(v) for k, v in x.items()}
    if isinstance(x, (list, tuple)):
        return [_norm(v) for v in x]
    return x


def replay(case, ctx):
    case = _norm(case)
    if case.get("kind") == "state":
        check_state(case["obj"], case["chain"], ctx)
    elif case.get("kind") == "growth":
        check_state(case["obj"], case["chain"], ctx, with_mutations=True, only_mutation="growth")
    elif case.get("kind") == "memoseq":
        check_memo_sequence(case["A"], case["B"], case["events"], ctx)
    elif case.get("kind") == "sequence":
        check_sequence(case["obj"], case["steps"], ctx, case.get("tier", "quick"))
    elif case.get("kind") == "mutation":
        check_state(case["obj"], case["chain"], ctx, with_mutations=True, only_mutation=case["mutation"])
    else:
        raise ValueError("unknown case kind %r" % case.get("kind"))
