"""C18 - simulated trees meet their specification for every generator state and are
reproducible (DESIGN 3/C18).  Engine E4 CHOICE: the generator is the environment; every
sequence of generator answers over finite per-call menus, up to a deviation bound, is
executed on the real simulators."""
import random

import dendropy
from dendropy.simulate import treesim
from dendropy.model import birthdeath, coalescent

from mc import ref
from mc import universe as U
from mc.choice import ChoiceRNG, deviations
from mc import choice as choice_engine
from mc.budget import run_limited, budgeted

ID = "C18"
LEVEL = "model_checking"
EXHAUSTIVE = True
RULE = ("the generator is the environment: every draw is a choice point with a finite menu (expovariate: short/long; "
        "integer draws: every value; weighted choices: every index with positive weight; other uniform draws: "
        "0.05/0.5/0.95; gauss with sd 0: no choice); all answer sequences with at most the tier's number of deviations "
        "from the default answer are executed on the real simulator for every configuration, plus random.Random(k) for "
        "every k in 0..63; plus, for the birth-death simulators with death > 0, EVERY answer sequence over the first K structural "
        "choice points (waiting times frozen) - deep extinction patterns need more deaths than the deviation bound allows; "
        "a case = one execution; non-trivial = at least one deviation or a real seeded generator")
ASSUMPTIONS = [
    "menus cover every control-flow outcome of each draw (which lineage, birth or death, which pair coalesces, which "
    "permutation step) but only two or three magnitudes per continuous draw",
    "the deviation bound limits how many non-default answers one execution contains; executions always run to completion",
    "equidistance / ultrametricity compared with relative tolerance 1e-9",
    "stray use of the module-level generator is detected by replacing GLOBAL_RNG in the simulator modules and the "
    "functions of the random module by traps for the duration of every run",
]
MANIFEST = {
    "engine": "E4-CHOICE",
    "text": "Stateless exploration of the environment's answers: the real simulators are run under a generator whose every "
            "draw is a choice point; all answer sequences within the deviation bound are enumerated (iterative deviation "
            "bounding) and every resulting tree is checked against the specification; each sequence is executed twice to "
            "decide reproducibility.",
    "note": "finite menus per draw; bound on deviations; GLOBAL_RNG trap; see assumptions",
    "technique": "exhaustive enumeration of RNG answer sequences (environment choices) with iterative deviation bounding on the real code",
}


def bounds(tier):
    if tier == "quick":
        return {"deviation_bound": 4, "bd_tips": [2, 3, 4], "kingman_n": [2, 3, 4], "species_leaves": [2, 3], "real_seeds": 64,
                "prefix_tips_and_points": {"fast_birth_death_tree": [[3, 12], [5, 11]], "birth_death_tree": [[3, 10], [5, 8]]}}
    return {"deviation_bound": 5, "bd_tips": [2, 3, 4, 5], "kingman_n": [2, 3, 4, 5], "species_leaves": [2, 3], "real_seeds": 256,
            "prefix_tips_and_points": {"fast_birth_death_tree": [[3, 16], [4, 13], [5, 13], [6, 12]],
                                       "birth_death_tree": [[3, 12], [4, 10], [5, 9]]}}


# ---------------------------------------------------------------------------
# global generator trap

class StrayGlobalRNG(Exception):
    pass


class _Trap(object):
    def __getattr__(self, name):
        raise StrayGlobalRNG("module-level generator used (%s)" % name)


def _trapfn(name):
    def f(*a, **k):
        raise StrayGlobalRNG("random.%s used" % name)
    return f


_TRAP_MODULES = None
_RANDOM_FUNCS = ["random", "shuffle", "sample", "choice", "randrange", "randint", "uniform", "expovariate", "gauss", "choices"]


class trapped_global_rng(object):
    def __enter__(self):
        import dendropy.utility
        import dendropy.calculate.probability as prob
        import dendropy.model.birthdeath as bd
        import dendropy.model.coalescent as co
        import dendropy.datamodel.treemodel._tree as tr
        mods = [dendropy.utility, prob, bd, co, tr]
        self.saved = []
        trap = _Trap()
        for m in mods:
            if hasattr(m, "GLOBAL_RNG"):
                self.saved.append((m, "GLOBAL_RNG", m.GLOBAL_RNG))
                m.GLOBAL_RNG = trap
        for fn in _RANDOM_FUNCS:
            self.saved.append((random, fn, getattr(random, fn)))
            setattr(random, fn, _trapfn(fn))
        return self

    def __exit__(self, *a):
        for m, name, v in self.saved:
            setattr(m, name, v)
        return False


# ---------------------------------------------------------------------------
# configurations

def configs(tier):
    b = bounds(tier)
    out = []
    for n in b["bd_tips"]:
        for rates in ((1.0, 0.0), (1.0, 0.5)):
            for ns in ("none", "exact", "larger", "short_T", "short_lower", "short_other"):
                out.append(("birth_death_tree", n, rates, ns))
                out.append(("fast_birth_death_tree", n, rates, ns))
        out.append(("uniform_pure_birth_tree", n, (1.0, 0.0), "exact"))
    for n in b["kingman_n"]:
        for pop in (1, 10):
            out.append(("pure_kingman_tree", n, pop))
    for n in b["species_leaves"]:
        for si in range(len(U.shapes(n, binary_only=True))):
            for genes in (1, 2):
                out.append(("contained_coalescent_tree", n, si, genes))
                out.append(("constrained_kingman_tree", n, si, genes))
    return out


def species_tree(n, si):
    shape = U.shapes(n, binary_only=True)[si]
    # ultrametric unit-step species tree: node height = max child height + 1
    def height(s):
        return 0 if isinstance(s, int) else 1 + max(height(c) for c in s)

    def rec(s, parent_h):
        h = height(s)
        L = None if parent_h is None else float(parent_h - h)
        if isinstance(s, int):
            return ("S%d" % s, None, L, ())
        return (None, None, L, tuple(rec(c, h) for c in s))
    sn = rec(shape, None)
    from mc import build
    ns = dendropy.TaxonNamespace()
    return build.build_tree((True, sn), ns), sn


def make_ns(kind, n):
    if kind == "none":
        return None
    if kind == "short_T":
        # fewer taxa than tips, labelled like the simulator's own generated labels (T1, T2, ...):
        # the missing taxa must be created without re-using a label that is already there
        return dendropy.TaxonNamespace(["T%d" % i for i in range(1, max(2, n))])
    if kind == "short_lower":
        # the same with labels that equal the generated ones only up to letter case (the default
        # namespace matches labels case-insensitively)
        return dendropy.TaxonNamespace(["t%d" % i for i in range(1, max(2, n))])
    if kind == "short_other":
        return dendropy.TaxonNamespace(["t0"])
    k = n if kind == "exact" else n + 1
    return dendropy.TaxonNamespace(["t%d" % i for i in range(k)])


def run_sim(cfg, rng):
    """Returns dict with the observable result."""
    name = cfg[0]
    if name in ("birth_death_tree", "fast_birth_death_tree"):
        _, n, (b, d), nsk = cfg
        ns = make_ns(nsk, n)
        fn = treesim.birth_death_tree if name == "birth_death_tree" else birthdeath.fast_birth_death_tree
        kw = {"taxon_namespace": ns} if ns is not None else {}
        t = fn(b, d, num_extant_tips=n, rng=rng, **kw)
        return {"tree": t, "kind": "bd", "n": n, "ns": ns}
    if name == "uniform_pure_birth_tree":
        _, n, (b, d), nsk = cfg
        ns = make_ns("exact", n)
        t = birthdeath.uniform_pure_birth_tree(ns, birth_rate=b, rng=rng)
        return {"tree": t, "kind": "bd", "n": n, "ns": ns}
    if name == "pure_kingman_tree":
        _, n, pop = cfg
        ns = make_ns("exact", n)
        t = treesim.pure_kingman_tree(ns, pop_size=pop, rng=rng)
        return {"tree": t, "kind": "kingman", "n": n, "ns": ns}
    if name == "contained_coalescent_tree":
        _, n, si, genes = cfg
        sp, sn = species_tree(n, si)
        gmap = dendropy.TaxonNamespaceMapping.create_contained_taxon_mapping(
            containing_taxon_namespace=sp.taxon_namespace, num_contained=genes)
        t = treesim.contained_coalescent_tree(containing_tree=sp, gene_to_containing_taxon_map=gmap, rng=rng)
        species_of = {}
        for gt in gmap.domain_taxon_namespace:
            species_of[gt.label] = gmap[gt].label
        return {"tree": t, "kind": "contained", "species": sn, "species_of": species_of, "ngenes": genes * n}
    if name == "constrained_kingman_tree":
        _, n, si, genes = cfg
        sp, sn = species_tree(n, si)
        t, pt = treesim.constrained_kingman_tree(sp, rng=rng, gene_sampling_strategy="fixed_per_population", num_genes=genes)
        species_of = {}
        for tx in t.taxon_namespace:
            species_of[tx.label] = tx.label.rsplit("_", 1)[0]
        return {"tree": t, "kind": "contained", "species": sn, "species_of": species_of, "ngenes": genes * n}
    raise ValueError(cfg)


# ---------------------------------------------------------------------------
# oracle

def node_ages(sn):
    """age of every internal node = max distance to a tip; returns list of (clade, age) and tip distances"""
    out = []

    def rec(nd):
        if not nd[3]:
            return 0.0, frozenset([nd[0]])
        ages = []
        cl = frozenset()
        for c in nd[3]:
            a, s = rec(c)
            ages.append(a + (c[2] or 0.0))
            cl |= s
        out.append((cl, max(ages), min(ages)))
        return max(ages), cl
    rec(sn)
    return out


def check_result(cfg, res):
    """[] or list of (signature detail, message)"""
    t = res["tree"]
    probs = []
    wf = ref.wellformed(t)
    if wf:
        return [("malformed", "; ".join(wf))]
    snap = ref.snapshot(t)
    sn = snap[1]
    leaves = ref.leaves(sn)
    kind = res["kind"]
    internal = [nd for nd in ref.preorder(sn) if nd[3]]
    if any(len(nd[3]) != 2 for nd in internal):
        probs.append(("not-bifurcating", "internal node with %s children: %s" % (sorted(set(len(nd[3]) for nd in internal)), ref.to_newick(sn))))
    if kind == "bd":
        n = res["n"]
        if len(leaves) != n:
            probs.append(("tip-count", "asked for %d extant tips, tree has %d leaves: %s" % (n, len(leaves), ref.to_newick(sn))))
        if any(l is None for l in leaves) or len(set(leaves)) != len(leaves):
            probs.append(("taxa-not-distinct", "leaf taxa %s" % (leaves,)))
        if res["ns"] is not None:
            member = set(x.label for x in res["ns"])
            if any(l not in member for l in leaves if l is not None):
                probs.append(("taxon-outside-namespace", "leaf taxa %s not all in the supplied namespace" % (leaves,)))
        rd = list(ref.root_distances(sn).values())
        if len(leaves) == len(rd) and rd and not all(ref.feq(x, rd[0]) for x in rd):
            probs.append(("tips-not-equidistant", "root-to-tip distances %s" % (sorted(rd),)))
    elif kind == "kingman":
        n = res["n"]
        want = sorted(x.label for x in res["ns"])
        if sorted(l for l in leaves if l is not None) != want or len(leaves) != n:
            probs.append(("kingman-leaves", "leaves %s, taxa %s" % (leaves, want)))
        rd = list(ref.root_distances(sn).values())
        if rd and not all(ref.feq(x, rd[0]) for x in rd):
            probs.append(("not-ultrametric", "root-to-tip distances %s" % (sorted(rd),)))
    elif kind == "contained":
        if len(leaves) != res["ngenes"] or len(set(leaves)) != len(leaves) or any(l is None for l in leaves):
            probs.append(("gene-leaves", "gene tree leaves %s (expected %d distinct genes)" % (leaves, res["ngenes"])))
        else:
            sp_ages = node_ages(res["species"])
            g_ages = node_ages(sn)
            sof = res["species_of"]
            for cl, amax, amin in g_ages:
                species = set(sof[g] for g in cl)
                if len(species) < 2:
                    continue
                # species divergence age: the smallest species clade containing all of them
                cands = [(len(scl), sa) for scl, sa, _ in sp_ages if species <= scl]
                div = min(cands)[1]
                if amin < div - 1e-9 * max(1.0, div):
                    probs.append(("coalescence-before-divergence", "genes %s (species %s) coalesce at age %r, species diverged at %r" % (
                        sorted(cl), sorted(species), amin, div)))
                    break
    return probs


def observe(cfg, res):
    return ref.snapshot(res["tree"])


FROZEN = ("expovariate",)   # prefix-exhaustive layer: waiting times take their default (structure only)


def one_execution(cfg, prefix=None, seed=None, frozen=False):
    rng = ChoiceRNG(prefix, frozen_sites=FROZEN if frozen else ()) if seed is None else random.Random(seed)
    with trapped_global_rng():
        res = run_sim(cfg, rng)
    return rng, res


def check_execution(cfg, ctx, prefix=None, seed=None, frozen=False):
    case = {"kind": "exec", "cfg": cfg, "prefix": list(prefix) if prefix is not None else None, "seed": seed, "frozen": frozen}
    name = cfg[0]
    rngbox = []

    def go():
        rng, res = one_execution(cfg, prefix, seed, frozen)
        rngbox.append(rng)
        return res
    st, val = run_limited(go, 10.0)
    if st == "exc":
        e = val
        if isinstance(e, StrayGlobalRNG):
            ctx.violation("%s|stray-global-rng" % name, str(e), case)
        else:
            ctx.violation("%s|exception|%s" % (name, type(e).__name__), "%r raised %s: %s" % (cfg, type(e).__name__, str(e)[:200]), case)
        return None
    if st == "timeout":
        st, v, n = budgeted(lambda: one_execution(cfg, prefix, seed, frozen), 3000000)
        if st == "hang":
            ctx.violation("%s|hang" % name, "does not terminate under answers %r (last in %s)" % (prefix if prefix is not None else seed, v), case)
        return None
    res = val
    rng = rngbox[0]
    for detail, msg in check_result(cfg, res):
        ctx.violation("%s|%s" % (name, detail), msg, case)
    # reproducibility: same answers, fresh arguments
    try:
        rng2, res2 = one_execution(cfg, tuple(rng.choices) if seed is None else None, seed, frozen)
        if observe(cfg, res2) != observe(cfg, res):
            ctx.violation("%s|not-reproducible" % name, "two runs from the same generator state differ: %s vs %s" % (
                ref.to_newick(observe(cfg, res)[1]), ref.to_newick(observe(cfg, res2)[1])), case)
    except Exception as e:
        ctx.violation("%s|not-reproducible" % name, "second run raised %r" % (e,), case)
    return rng


def chunks(tier):
    b = bounds(tier)
    out = []
    for cfg in configs(tier):
        out.append({"kind": "seeds", "cfg": cfg, "n": b["real_seeds"]})
        try:
            rng, res = one_execution(cfg, ())
        except Exception:
            out.append({"kind": "explore", "cfg": cfg, "prefix": [], "bound": b["deviation_bound"], "root": True})
            continue
        out.append({"kind": "explore", "cfg": cfg, "prefix": [], "bound": 0, "root": True})
        ch = rng.choices
        for i, (site, m) in enumerate(rng.points):
            for alt in range(1, m):
                out.append({"kind": "explore", "cfg": cfg, "prefix": list(ch[:i]) + [alt], "bound": b["deviation_bound"]})
    out.extend(prefix_chunks(tier))
    return out


def prefix_configs(tier):
    """configurations for the prefix-exhaustive layer: (cfg, K)"""
    b = bounds(tier)
    out = []
    for name in ("birth_death_tree", "fast_birth_death_tree"):
        for n, K in b["prefix_tips_and_points"][name]:
            out.append(((name, n, (1.0, 0.5), "none"), K))
    return out


def prefix_chunks(tier):
    out = []
    for cfg, K in prefix_configs(tier):
        rng, res = one_execution(cfg, (), frozen=True)
        out.append({"kind": "prefix", "cfg": cfg, "prefix": [], "K": 0})
        ch = rng.choices
        # partition on the first two free points for load balance
        for i, (site, m) in enumerate(rng.points[:K]):
            for alt in range(1, m):
                out.append({"kind": "prefix", "cfg": cfg, "prefix": list(ch[:i]) + [alt], "K": K})
    return out


def _cfg(c):
    return tuple(tuple(x) if isinstance(x, list) else x for x in c)


def run_chunk(chunk, ctx):
    cfg = _cfg(chunk["cfg"])
    if chunk["kind"] == "seeds":
        for k in range(chunk["n"]):
            ctx.case(("seed", cfg, k))
            ctx.count("seeded_executions")
            check_execution(cfg, ctx, seed=k)
        return None
    if chunk["kind"] == "prefix":
        stats = {"n": 0}

        def runp(p):
            ctx.case(("prefix-exec", cfg, p), nontrivial=len(p) > 0)
            rng = check_execution(cfg, ctx, prefix=p, frozen=True)
            stats["n"] += 1
            if rng is None:
                dummy = ChoiceRNG(p)
                dummy.choices = list(p)
                dummy.points = [("?", 1)] * len(p)
                return dummy, None
            return rng, None
        choice_engine.explore_prefix(runp, chunk["K"], prefix=tuple(chunk["prefix"]))
        ctx.count("prefix_exhaustive_executions", stats["n"])
        ctx.count("transitions", stats["n"])
        ctx.count("states", stats["n"])
        ctx.count("executions", stats["n"])
        if stats["n"] > 50:
            ctx.sample({"config": cfg, "layer": "prefix-exhaustive: every answer over the first %d structural choice points" % chunk["K"],
                        "answer_prefix": chunk["prefix"], "executions_below": stats["n"]}, 1)
        return None
    bound = chunk["bound"]
    stats = {"n": 0}

    def run(p):
        ctx.case(("exec", cfg, p), nontrivial=deviations(p) > 0)
        rng = check_execution(cfg, ctx, prefix=p)
        stats["n"] += 1
        if rng is None:
            # failed execution: no further extension below it
            dummy = ChoiceRNG(p)
            dummy.choices = list(p)
            dummy.points = [("?", 1)] * len(p)
            return dummy, None
        ctx.maximum("max_choice_points", len(rng.points))
        for s in rng.fallback_sites:
            ctx.count("fallback_menu_site:" + s)
        return rng, None
    choice_engine.explore(run, bound, prefix=tuple(chunk["prefix"]))
    ctx.count("transitions", stats["n"])
    ctx.count("states", stats["n"])
    ctx.count("executions", stats["n"])
    if chunk.get("root"):
        ctx.sample({"config": cfg, "default_answers": "all menu entries 0"}, 1)
    elif stats["n"] > 3:
        ctx.sample({"config": cfg, "answer_prefix": chunk["prefix"], "executions_below": stats["n"]}, 1)
    return None


def replay(case, ctx):
    cfg = _cfg(case["cfg"])
    ctx.case(("replay",))
    check_execution(cfg, ctx, prefix=tuple(case["prefix"]) if case.get("prefix") is not None else None, seed=case.get("seed"),
                    frozen=bool(case.get("frozen")))
