"""C14 - path distances, common ancestors, NJ / UPGMA (DESIGN 3/C14).

Engine E1: exhaustive enumeration of U(n) x child-order variants x unifurcation
insertions x rooting x edge-length patterns; on every tree *all* pairs of taxa (and of
nodes), *all* non-empty taxon subsets, every query route; every rooted binary tree x
every {1,2} length assignment for NJ; every ranked ultrametric tree for UPGMA; CSV
write/read of the matrices.

The reference works on snapshots only: a node is addressed by its *path* (tuple of child
indices from the seed), the distance / edge count / turning node of two nodes follow
from the common prefix of their paths.
"""
import io
import itertools
import warnings
from fractions import Fraction

import dendropy
from dendropy.calculate import treemeasure
from dendropy.calculate.phylogeneticdistance import PhylogeneticDistanceMatrix

from mc import ref, build
from mc import universe as U

ID = "C14"
LEVEL = "exploration"
EXHAUSTIVE = True
RULE = ("every tree of U(n) (n up to the tier bound) x {as generated, reversed/swapped child orders, unifurcation "
        "insertions} x rooting x edge-length patterns (none, unit, cyclic 1-2-3, partial None, zeros, non-dyadic, and "
        "every assignment from a small alphabet for n <= 4); a case = one tree (drawing, lengths, rooting, namespace, "
        "encoding state) on which ALL taxon pairs / node pairs / non-empty taxon subsets / query routes are evaluated "
        "(`evaluations` counts the single queries), or one generating tree handed to NJ / UPGMA (every rooted binary "
        "tree x every {1,2} length assignment; every ranked ultrametric tree x height pattern; directly and through "
        "each CSV write/read route); non-trivial = the tree has >= 3 leaves; plus a 'large representatives' layer that is "
        "exhaustive only over the stated set of 18 big trees in bounds()['large_representatives'] (ladders to 65 tips, balanced "
        "to 64, stars to 100, a broom) with the same oracles and a stated family of subsets / pairs; plus [encode; edit without update; mrca(is_bipartitions_updated=False)] "
        "histories over the edit menu in bounds()['mrca_after_edit_without_update']; plus histories on one matrix "
        "object (query, re-compile for another tree or table, query) over the menu in bounds()['matrix_object_reuse']")
ASSUMPTIONS = [
    "reference distances/edge counts/turning nodes are computed from snapshot paths (common prefix); live nodes are "
    "identified by their path through Node._child_nodes",
    "a missing edge length counts as zero (statement); tree size for normalised variants = sum of all edge lengths "
    "including the seed edge, resp. number of nodes (every node owns an edge in DendroPy)",
    "Tree.mrca is compared with the tree as it is after the call (a requested refresh runs encode_bipartitions, which by "
    "documented default collapses the basal bifurcation of an unrooted tree); the deepest node whose leaves include the "
    "set = the node at the common prefix of the leaf paths",
    "self pairs: zero distance / zero edges are demanded for every taxon; pdm.mrca(t, t) is demanded to be the leaf only "
    "when the tree has more than one node",
    "NJ is driven with binary generating trees whose internal (and, except in the stated zero-pendant layer, pendant) "
    "lengths are positive; ties among Q values are the library's business (any choice is a cherry of an additive matrix)",
    "the iteration order of PhylogeneticDistanceMatrix._mapped_taxa (a set of id-hashed taxa = order of the NJ/UPGMA node "
    "pool and of the CSV rows) is treated as environment: the harness fixes it through a set subclass with a defined "
    "iteration order and enumerates it (all orders n <= 4; as-is, reversed and rotations above)",
    "UPGMA on ultrametric input is driven with distinct node heights (no ties), including one cherry at height zero "
    "(pendant lengths 0, 0.0 or missing: a distance of exactly 0.0 that is the unique minimum); the textbook-definition layer on "
    "non-ultrametric input skips inputs in which the exact (Fraction) reference meets a tie",
    "stale encodings: after an edit that does not update the encoding, Tree.mrca(..., is_bipartitions_updated=False) is judged "
    "on the structure found after the call (brute-force deepest node; None when a queried taxon is on no leaf or not below "
    "start_node); the edit itself is not judged",
    "object re-use: a matrix re-compiled for source B must answer every query as a fresh matrix of B would (the reference of B); "
    "path steps, mrca, normalisation and write_csv are judged only when the matrix was last compiled from a tree",
    "CSV round trips are written with is_normalize_by_tree_size=False (the signature default of write_csv divides by the "
    "tree length; that default is not judged)",
]
MANIFEST = {
    "engine": "E1-ENUM",
    "technique": "exhaustive small-scope enumeration against a path-based reference model",
    "text": ("For every tree with up to 5 (quick) / 6 (thorough) leaves, in every drawing listed in the rule, the "
             "phylogenetic distance matrix, the node distance matrix, treemeasure.patristic_distance and Tree.mrca "
             "agree with the path-based reference on every pair / subset / route; NJ returns the generating unrooted "
             "splits and merged lengths for every binary tree with {1,2} lengths up to 5 leaves (patterns at 6), UPGMA "
             "returns the generating clades and heights for every ranked ultrametric tree up to 6 leaves, also after "
             "CSV write/read."),
    "note": "trusted: mc/ref.py snapshots, mc/build.py, the path arithmetic in this module, Python's csv module",
}

NONDYADIC = "nd"


def bounds(tier):
    b = _bounds(tier)
    b["large_representatives"] = {
        "trees": list(BIG_NAMES), "labels": "t000..tNNN", "nj_upgma_on": list(BIG_ALGO),
        "per_tree": ("distance matrix: all ordered taxon pairs (cyclic 1-2-3 lengths rooted, partial-None lengths unrooted; "
                     "path edges up to 40 tips), summaries on the full set and the subset family; node distance matrix: all "
                     "ordered node pairs; treemeasure.patristic_distance on the pair family; Tree.mrca: subset family x 3 routes "
                     "x {current, refresh, stale} x namespaces {exact, reversed, extra_low}; one CSV round trip; NJ ({1,2} cyclic "
                     "lengths, edge counts, via CSV) and UPGMA (two rankings, distinct integer / quarter heights, via CSV; textbook "
                     "average linkage on pairwise distinct dyadic lengths) on the binary trees up to 33 tips"),
        "subset_family": "first, last, middle, {first,last}, {first,second}, last two, {middle,last}, every other (both phases), "
                         "all but first, all but last, all, first half, second half, taxa 9+10, 31+32, 63+64 where present",
        "exhaustive_over": "this stated set only"}
    b["mrca_after_edit_without_update"] = {
        "shapes": "U(n), 2 <= n <= %d, rooted and unrooted" % b["mrca_stale_edit_up_to"],
        "pre_states": ["encode_bipartitions()", "encode_bipartitions() + one mrca call"],
        "edits": ("reseed_at / reroot_at_node / reroot_at_edge at every internal non-seed node (edge), to_outgroup_position at every "
                  "non-seed node, all with update_bipartitions=False; swap the taxa of every two leaves; move every non-seed subtree "
                  "under every other internal node; regraft every leaf on the edge above every other node; add a leaf with a new taxon "
                  "under every internal node; prune every leaf"),
        "queries": ("each on its own fresh [build; encode; edit] sequence, always with is_bipartitions_updated=False, argument form "
                    "rotating over taxa= / taxon_labels= / leafset_bitmask=: every non-empty subset of the leaf taxa without start_node; "
                    "for every non-seed node as start_node every non-empty subset of its clade, its clade plus one outside taxon, one "
                    "outside taxon alone; subsets containing a pruned taxon (after the extra first mrca call: the no-start_node queries)"),
        "not_deciding": "an edit that raises or leaves an improper tree; a start_node that the refresh removes from the tree; "
                        "queries with the default is_bipartitions_updated=True on a stale encoding are never made"}
    b["matrix_object_reuse"] = {
        "sources": [m[0] for m in REUSE_MENU], "queries": [q[0] for q in REUSE_QUERIES],
        "histories": ("one PhylogeneticDistanceMatrix object: [query q on A; re-compile the same object for B by compile_from_tree or "
                      "compile_from_dict; query q'] for every ordered pair A != B of the sources x every decidable (q, q') (all q with "
                      "both sources in one namespace, one q per family with separate namespaces; first matrix from from_tree, from the bare "
                      "constructor, or from a table); [q; q'] on the same matrix without re-compiling for every (q, q'); triples over "
                      "REUSE_TRIPLES for 4 queries; every query is judged by the path reference of the source the matrix was last compiled for"),
        "not_deciding": "write_csv on a matrix compiled from a table (the unchanged library raises KeyError on the missing diagonal even without re-use)"}
    return b


def _bounds(tier):
    if tier == "quick":
        return {"max_leaves": 5, "exhaustive_lengths_up_to": 4, "subset_filters_up_to": 5,
                "nj_all_12_lengths_up_to": 5, "nj_pattern_leaves": 6, "upgma_ranked_up_to": 6,
                "upgma_definition_up_to": 4, "mrca_start_node_up_to": 4, "mrca_ns_configs": MRCA_NS,
                "double_unifurcations_up_to": 3, "nj_zero_pendant_up_to": 5, "upgma_zero_cherry_all_orders_up_to": 5, "mrca_stale_edit_up_to": 4}
    return {"max_leaves": 6, "exhaustive_lengths_up_to": 4, "subset_filters_up_to": 6,
            "nj_all_12_lengths_up_to": 6, "nj_pattern_leaves": 7, "upgma_ranked_up_to": 7,
            "upgma_definition_up_to": 5, "mrca_start_node_up_to": 5, "mrca_ns_configs": MRCA_NS,
            "double_unifurcations_up_to": 4, "nj_zero_pendant_up_to": 6, "upgma_zero_cherry_all_orders_up_to": 5, "mrca_stale_edit_up_to": 5}


MRCA_NS = ["exact", "extra_low", "removed_low", "reversed", "extra_high"]


def tup(x):
    if isinstance(x, list):
        return tuple(tup(y) for y in x)
    return x


def nnodes(s):
    if isinstance(s, int):
        return 1
    return 1 + sum(nnodes(c) for c in s)


# ---------------------------------------------------------------------------
# reference on snapshots, by paths

class RefIndex(object):
    def __init__(self, sn):
        self.node = {}
        self.leafpath = {}
        self.order = []
        stack = [(sn, ())]
        while stack:
            nd, p = stack.pop()
            self.node[p] = nd
            self.order.append(p)
            if not nd[3] and nd[0] is not None:
                self.leafpath[nd[0]] = p
            for i, c in enumerate(nd[3]):
                stack.append((c, p + (i,)))
        self.order.sort()
        self.total = sum((nd[2] or 0) for nd in self.node.values())
        self.n_nodes = len(self.node)

    def up(self, p):
        return self.node[p][2] or 0

    @staticmethod
    def prefix(p, q):
        k = 0
        for a, b in zip(p, q):
            if a != b:
                break
            k += 1
        return k

    def between(self, p, q):
        """(path length, edge count, turning node path, set of head-node paths of the edges on the path)"""
        k = self.prefix(p, q)
        d = 0
        edges = set()
        for pp in (p, q):
            for i in range(k + 1, len(pp) + 1):
                d += self.up(pp[:i])
                edges.add(pp[:i])
        return d, (len(p) - k) + (len(q) - k), p[:k], edges

    def lca(self, paths):
        paths = list(paths)
        p = paths[0]
        for q in paths[1:]:
            p = p[:self.prefix(p, q)]
        return p

    def clade(self, p):
        return ref.clade(self.node[p])


def live_paths(tree):
    ids = {}
    stack = [(tree._seed_node, ())]
    while stack:
        nd, p = stack.pop()
        ids[id(nd)] = p
        for i, c in enumerate(nd._child_nodes):
            stack.append((c, p + (i,)))
    return ids


def live_nodes(tree):
    out = {}
    stack = [(tree._seed_node, ())]
    while stack:
        nd, p = stack.pop()
        out[p] = nd
        for i, c in enumerate(nd._child_nodes):
            stack.append((c, p + (i,)))
    return out


def same(a, b, exact):
    if a is None or b is None:
        return a is b
    if isinstance(a, bool) or isinstance(b, bool):
        return False
    if not isinstance(a, (int, float)) or not isinstance(b, (int, float)):
        return False
    if exact:
        return a == b
    return ref.feq(a, b)


class Viol(object):
    """at most one violation per signature per tree-level case"""

    def __init__(self, ctx, case):
        self.ctx, self.case, self.seen = ctx, case, set()

    def __call__(self, sig, msg):
        if sig in self.seen:
            return
        self.seen.add(sig)
        self.ctx.violation(sig, msg, self.case)


def call(V, name, fn, *a, **kw):
    """returns (ok, value); an exception becomes a violation `name|exception|Type`"""
    try:
        return True, fn(*a, **kw)
    except Exception as e:
        V("%s|exception|%s" % (name, type(e).__name__), "%s raised %r" % (name, e))
        return False, None


def taxa_of(ns):
    return dict((t._label, t) for t in ns._taxa)


# ---------------------------------------------------------------------------
# large representatives (a stated finite set; see bounds()["large_representatives"])

BIG_NAMES = (["ladderL-%d" % k for k in (12, 17, 33, 40, 65)] + ["ladderR-%d" % k for k in (12, 17, 33, 40, 65)] +
             ["balanced-%d" % k for k in (16, 32, 64)] + ["star-%d" % k for k in (12, 33, 40, 100)] + ["broom-20-40"])
BIG_ALGO = ["ladderL-12", "ladderL-17", "ladderL-33", "ladderR-12", "ladderR-17", "ladderR-33", "balanced-16", "balanced-32"]


def big_shape(name):
    parts = name.split("-")
    kind, k = parts[0], int(parts[1])
    if kind == "ladderL":
        s = 0
        for i in range(1, k):
            s = (s, i)
        return s
    if kind == "ladderR":
        s = k - 1
        for i in range(k - 2, -1, -1):
            s = (i, s)
        return s
    if kind == "balanced":
        def rec(lo, hi):
            if hi - lo == 1:
                return lo
            mid = (lo + hi) // 2
            return (rec(lo, mid), rec(mid, hi))
        return rec(0, k)
    if kind == "star":
        return tuple(range(k))
    if kind == "broom":
        m = int(parts[2])
        s = tuple(range(k, k + m))
        for i in range(k - 1, -1, -1):
            s = (i, s)
        return s
    raise ValueError(name)


def resolve_shape(x):
    if isinstance(x, str):
        return big_shape(x)
    return tup(x)


def resolve_lens(x, shape):
    """a list (pre-order), or the name of a pattern"""
    if not isinstance(x, str):
        return list(x)
    k = nnodes(shape)
    if x == "cyc123":
        return [[1, 2, 3][i % 3] for i in range(k)]
    if x == "partial":
        return [None if i % 3 == 1 else [2, 1, 3][i % 3] for i in range(k)]
    if x == "cyc12":
        return [None] + [[1, 2][i % 2] for i in range(1, k)]
    if x == "unit":
        return [1] * k
    if x == "distinct":     # irregular dyadic lengths: average linkage meets no tie on the trees of BIG_ALGO (asserted)
        return [None] + [1 + ((i * i * 7 + i * 13) % 257) / 256.0 for i in range(1, k)]
    raise ValueError(x)


def resolve_ranks(x, shape):
    """ranks of the internal nodes in pre-order: a list, or "postorder" (children before parents, left
    subtree first) / "levels" (by height level, then pre-order position)"""
    if not isinstance(x, str):
        return list(x)
    internal = [p for p in U.paths(shape) if not isinstance(U.at(shape, p), int)]
    if x == "postorder":
        key = {}
        counter = [0]

        def rec(s2, p):
            if isinstance(s2, int):
                return
            for i, c in enumerate(s2):
                rec(c, p + (i,))
            counter[0] += 1
            key[p] = counter[0]
        rec(shape, ())
        return [key[p] for p in internal]
    if x == "levels":
        lev = {}

        def rec2(s2, p):
            if isinstance(s2, int):
                return 0
            v = 1 + max(rec2(c, p + (i,)) for i, c in enumerate(s2))
            lev[p] = v
            return v
        rec2(shape, ())
        order = sorted(internal, key=lambda p: (lev[p], p))
        rk = dict((p, i + 1) for i, p in enumerate(order))
        return [rk[p] for p in internal]
    raise ValueError(x)


def tlabels(n):
    return ["t%03d" % i for i in range(n)]


def case_labels(case):
    return tlabels(case["n"]) if case.get("tl") else U.LABELS[:case["n"]]


def subset_family(labels):
    """representative subsets of a large taxon set"""
    n = len(labels)
    m = n // 2
    fam = [[labels[0]], [labels[-1]], [labels[m]], [labels[0], labels[-1]], [labels[0], labels[1]], labels[-2:],
           [labels[m], labels[-1]], labels[::2], labels[1::2], labels[1:], labels[:-1], list(labels), labels[:m], labels[m:],
           [labels[9], labels[10]] if n > 10 else [labels[1], labels[2]],
           [labels[31], labels[32]] if n > 32 else [labels[0], labels[2]],
           [labels[63], labels[64]] if n > 64 else [labels[1], labels[-1]]]
    out, seen = [], set()
    for f in fam:
        if tuple(f) not in seen and f:
            seen.add(tuple(f))
            out.append(list(f))
    return out


def pair_family(labels):
    n = len(labels)
    m = n // 2
    idx = [(0, 0), (0, 1), (0, n - 1), (0, m), (m, n - 1), (n - 2, n - 1), (m, m + 1), (n - 1, n - 1)]
    if n > 10:
        idx.append((9, 10))
    if n > 32:
        idx.append((31, 32))
    if n > 64:
        idx.append((63, 64))
    return [(labels[i], labels[j]) for i, j in idx]


def short(text, k=160):
    return text if len(text) <= k else text[:k] + "...[%d chars]" % len(text)


# ---------------------------------------------------------------------------
# length patterns (lists indexed by pre-order position; index 0 = seed edge)

def patterns(k, n, b, drawing_tag):
    out = [
        ("none", [None] * k),
        ("unit", [None] + [1] * (k - 1)),
        ("cyc123", [[1, 2, 3][i % 3] for i in range(k)]),
        ("partial", [None if i % 3 == 1 else [2, 1, 3][i % 3] for i in range(k)]),
        ("zeros", [0 if i % 2 else 1 for i in range(k)]),
        ("halves", [None] + [2.0 ** -(i % 4) for i in range(1, k)]),
        (NONDYADIC, [0.1 * (i + 1) for i in range(k)]),
    ]
    if drawing_tag == "base" and n <= b["exhaustive_lengths_up_to"]:
        alpha = (None, 0, 1, 2) if n <= 3 else (1, 2)
        for i, a in enumerate(itertools.product(alpha, repeat=k)):
            out.append(("x%d" % i, list(a)))
    return out


def drawings(shape, n, b):
    out = [("base", shape)]
    if n <= 4:
        for o in U.all_orders(shape):
            if o != shape:
                out.append(("order", o))
    else:
        for o in U.order_variants(shape)[1:]:
            out.append(("order", o))
    k = 2 if n <= b["double_unifurcations_up_to"] else 1
    for u in U.with_unifurcations(shape, k, (1, 2) if n <= 3 else (1,)):
        out.append(("unif", u))
    return out


# ---------------------------------------------------------------------------
# layer D: distance matrices on one tree

def make_tree(case):
    shape = resolve_shape(case["shape"])
    labels = case_labels(case)
    sn = ref.mk(shape, lens=resolve_lens(case["lens"], shape), labels=labels)
    ns, bit = build.make_namespace(labels, case.get("ns", "exact"))
    tree = build.build_tree((case["rooted"], sn), ns)
    return shape, labels, sn, ns, bit, tree


def subsets(labels, lo=1):
    for r in range(lo, len(labels) + 1):
        for c in itertools.combinations(labels, r):
            yield c


def check_pdm(case, ctx):
    """PhylogeneticDistanceMatrix of one tree: all ordered pairs, lists, summaries."""
    shape, labels, sn, ns, bit, tree = make_tree(case)
    n = case["n"]
    exact = case["ptag"] != NONDYADIC
    store = bool(case.get("store"))
    V = Viol(ctx, case)
    R = RefIndex(sn)
    tx = taxa_of(ns)
    q = 0
    ok, pdm = call(V, "Tree.phylogenetic_distance_matrix", tree.phylogenetic_distance_matrix, is_store_path_edges=store)
    if not ok:
        return 1
    ids = live_paths(tree)
    lone = R.n_nodes == 1
    refd = {}
    text = short(ref.to_newick(sn))
    for l1 in labels:
        for l2 in labels:
            t1, t2 = tx[l1], tx[l2]
            d, c, m, edges = R.between(R.leafpath[l1], R.leafpath[l2])
            refd[(l1, l2)] = (d, c)
            what = "%s,%s on %s" % (l1, l2, text)
            q += 1
            ok, got = call(V, "pdm.patristic_distance", pdm.patristic_distance, t1, t2)
            if ok and not same(got, d, exact):
                V("pdm.patristic_distance|value" + ("|self-pair" if l1 == l2 else ""), "patristic_distance(%s) = %r, path sum %r" % (what, got, d))
            ok, got = call(V, "pdm.__call__", pdm, t1, t2)
            if ok and not same(got, d, exact):
                V("pdm.__call__|value", "pdm(%s) = %r, path sum %r" % (what, got, d))
            ok, got = call(V, "pdm.distance", pdm.distance, t1, t2)
            if ok and not same(got, d, exact):
                V("pdm.distance|weighted|value", "distance(%s) = %r, path sum %r" % (what, got, d))
            ok, got = call(V, "pdm.distance", pdm.distance, t1, t2, is_weighted_edge_distances=False)
            if ok and not same(got, c, True):
                V("pdm.distance|unweighted|value", "distance(%s, unweighted) = %r, edges %r" % (what, got, c))
            ok, got = call(V, "pdm.path_edge_count", pdm.path_edge_count, t1, t2)
            if ok and not same(got, c, True):
                V("pdm.path_edge_count|value" + ("|self-pair" if l1 == l2 else ""), "path_edge_count(%s) = %r, edges on the path %r" % (what, got, c))
            if not (l1 == l2 and lone):
                ok, got = call(V, "pdm.mrca", pdm.mrca, t1, t2)
                if ok:
                    gp = ids.get(id(got), "not-a-node-of-the-tree")
                    if gp != m:
                        V("pdm.mrca|node" + ("|self-pair" if l1 == l2 else ""), "mrca(%s) is the node at path %r, the path turns at %r" % (what, gp, m))
            if R.total > 0:
                ok, got = call(V, "pdm.patristic_distance|normalized", pdm.patristic_distance, t1, t2, is_normalize_by_tree_size=True)
                if ok and not same(got, d / float(R.total), False):
                    V("pdm.patristic_distance|normalized|value", "normalised patristic_distance(%s) = %r, want %r/%r" % (what, got, d, R.total))
            ok, got = call(V, "pdm.path_edge_count|normalized", pdm.path_edge_count, t1, t2, is_normalize_by_tree_size=True)
            if ok and not same(got, c / float(R.n_nodes), False):
                V("pdm.path_edge_count|normalized|value", "normalised path_edge_count(%s) = %r, want %r/%r" % (what, got, c, R.n_nodes))
            if store and not (l1 == l2 and lone):
                ok, got = call(V, "pdm.path_edges", pdm.path_edges, t1, t2)
                if ok:
                    try:
                        gp = sorted(ids.get(id(e._head_node), ("?",)) for e in got)
                    except Exception as e:
                        gp = repr(e)
                    if gp != sorted(edges):
                        V("pdm.path_edges|edges", "path_edges(%s) = edges above %r, path has %r" % (what, gp, sorted(edges)))
    # lists over distinct unordered pairs
    upairs = [(a, b2) for i, a in enumerate(labels) for b2 in labels[i + 1:]]
    for weighted in (True, False):
        want = sorted(refd[p][0 if weighted else 1] for p in upairs)
        q += 1
        ok, got = call(V, "pdm.distances", pdm.distances, is_weighted_edge_distances=weighted)
        if ok:
            g = sorted(got)
            if len(g) != len(want) or not all(same(x, y, exact) for x, y in zip(g, want)):
                V("pdm.distances|%s" % ("weighted" if weighted else "unweighted"), "distances() = %r, distinct pairs give %r on %s" % (short(repr(g)), short(repr(want)), short(ref.to_newick(sn))))
        ok, got = call(V, "pdm.sum_of_distances", pdm.sum_of_distances, is_weighted_edge_distances=weighted)
        if ok and not same(got, sum(want), False):
            V("pdm.sum_of_distances|value", "sum_of_distances = %r, want %r" % (got, sum(want)))
        norm = float(R.total) if weighted else float(R.n_nodes)
        if norm > 0 and upairs:
            ok, got = call(V, "pdm.distances|normalized", pdm.distances, is_weighted_edge_distances=weighted, is_normalize_by_tree_size=True)
            if ok:
                g = sorted(got)
                if len(g) != len(want) or not all(same(x, y / norm, False) for x, y in zip(g, want)):
                    V("pdm.distances|normalized", "normalised distances() = %r, want %r / %r" % (g, want, norm))
    # summaries
    filt = case.get("filters")
    groups = [None]
    if filt == "family":
        groups += [s for s in subset_family(labels) if 2 <= len(s) < len(labels)]
    elif filt:
        groups += [s for s in subsets(labels, 2) if len(s) < len(labels)]
    if n >= 2:
        for grp in groups:
            members = list(labels) if grp is None else list(grp)
            fn = None if grp is None else (lambda t, _m=frozenset(members): t._label in _m)
            gp = [(a, b2) for i, a in enumerate(members) for b2 in members[i + 1:]]
            for weighted in (True, False):
                k = 0 if weighted else 1
                vals = [refd[p][k] for p in gp]
                mpd = sum(vals) / float(len(vals))
                near = [min(refd[(a, b2)][k] for b2 in members if b2 != a) for a in members]
                mntd = sum(near) / float(len(near))
                flags = [False] if grp is not None else [False, True]
                for normed in flags:
                    norm = 1.0
                    if normed:
                        norm = float(R.total) if weighted else float(R.n_nodes)
                        if norm == 0:
                            continue
                    tagn = "|normalized" if normed else ""
                    tagf = "|filter" if grp is not None else ""
                    q += 2
                    ok, got = call(V, "pdm.mean_pairwise_distance" + tagf, pdm.mean_pairwise_distance, filter_fn=fn,
                                   is_weighted_edge_distances=weighted, is_normalize_by_tree_size=normed)
                    if ok and not same(got, mpd / norm, False):
                        V("pdm.mean_pairwise_distance|value%s%s" % (tagf, tagn), "mean_pairwise_distance(%s, weighted=%r) = %r, mean over the %d pairs = %r on %s" % (
                            members, weighted, got, len(vals), mpd / norm, ref.to_newick(sn)))
                    ok, got = call(V, "pdm.mean_nearest_taxon_distance" + tagf, pdm.mean_nearest_taxon_distance, filter_fn=fn,
                                   is_weighted_edge_distances=weighted, is_normalize_by_tree_size=normed)
                    if ok and not same(got, mntd / norm, False):
                        V("pdm.mean_nearest_taxon_distance|value%s%s" % (tagf, tagn), "mean_nearest_taxon_distance(%s, weighted=%r) = %r, mean of nearest-taxon distances %r = %r on %s" % (
                            members, weighted, got, near, mntd / norm, ref.to_newick(sn)))
    return q


def check_tm(case, ctx):
    """treemeasure.patristic_distance for every unordered pair: on a fresh, never encoded
    tree per call (default is_bipartitions_updated=False), and on an encoded tree with
    is_bipartitions_updated=True."""
    labels = case_labels(case)
    exact = case["ptag"] != NONDYADIC
    V = Viol(ctx, case)
    sn0 = make_tree(case)[2]
    R = RefIndex(sn0)
    text = short(ref.to_newick(sn0))
    # the refresh (encode_bipartitions) collapses the basal bifurcation of a tree that is not rooted
    feat = "|unrooted-basal-bifurcation" if (case["rooted"] is not True and len(sn0[3]) == 2) else ""
    q = 0
    pairs = [(a, b2) for i, a in enumerate(labels) for b2 in labels[i:]]
    if case.get("pairs") == "family":
        pairs = pair_family(labels)
    with warnings.catch_warnings():
        warnings.simplefilter("ignore")
        for l1, l2 in pairs:
            _, _, sn, ns, bit, tree = make_tree(case)
            tx = taxa_of(ns)
            d = R.between(R.leafpath[l1], R.leafpath[l2])[0]
            q += 1
            ok, got = call(V, "treemeasure.patristic_distance", treemeasure.patristic_distance, tree, tx[l1], tx[l2])
            if ok and not same(got, d, exact):
                V("treemeasure.patristic_distance|value" + (feat or "|refresh"), "patristic_distance(%s,%s) = %r on %s (rooted=%r), path sum %r" % (
                    l1, l2, got, text, case["rooted"], d))
        _, _, sn, ns, bit, tree = make_tree(case)
        tx = taxa_of(ns)
        try:
            tree.encode_bipartitions(suppress_unifurcations=False)
        except Exception as e:
            V("encode_bipartitions|exception|%s" % type(e).__name__, "encode_bipartitions(suppress_unifurcations=False) raised %r on %s" % (e, text))
            return q
        for l1, l2 in pairs:
            d = R.between(R.leafpath[l1], R.leafpath[l2])[0]
            q += 1
            ok, got = call(V, "treemeasure.patristic_distance|updated", treemeasure.patristic_distance, tree, tx[l2], tx[l1], is_bipartitions_updated=True)
            if ok and not same(got, d, exact):
                V("treemeasure.patristic_distance|value" + (feat or "|current"), "after encode_bipartitions(suppress_unifurcations=False), patristic_distance(%s,%s, is_bipartitions_updated=True) = %r on %s (rooted=%r), path sum %r" % (
                    l2, l1, got, text, case["rooted"], d))
    return q


def check_ndm(case, ctx):
    """NodeDistanceMatrix: every ordered pair of nodes."""
    shape, labels, sn, ns, bit, tree = make_tree(case)
    exact = case["ptag"] != NONDYADIC
    V = Viol(ctx, case)
    R = RefIndex(sn)
    ok, ndm = call(V, "Tree.node_distance_matrix", tree.node_distance_matrix)
    if not ok:
        return 1
    ids = live_paths(tree)
    nodes = live_nodes(tree)
    q = 0
    text = short(ref.to_newick(sn))
    for p in R.order:
        for p2 in R.order:
            d, c, m, _ = R.between(p, p2)
            n1, n2 = nodes[p], nodes[p2]
            what = "nodes %r,%r of %s" % (p, p2, text)
            q += 1
            ok, got = call(V, "ndm.patristic_distance", ndm.patristic_distance, n1, n2)
            if ok and not same(got, d, exact):
                V("ndm.patristic_distance|value", "patristic_distance(%s) = %r, path sum %r" % (what, got, d))
            ok, got = call(V, "ndm.__call__", ndm, n1, n2)
            if ok and not same(got, d, exact):
                V("ndm.__call__|value", "ndm(%s) = %r, path sum %r" % (what, got, d))
            ok, got = call(V, "ndm.path_edge_count", ndm.path_edge_count, n1, n2)
            if ok and not same(got, c, True):
                V("ndm.path_edge_count|value", "path_edge_count(%s) = %r, edges %r" % (what, got, c))
            ok, got = call(V, "ndm.distance", ndm.distance, n1, n2, is_weighted_edge_distances=False)
            if ok and not same(got, c, True):
                V("ndm.distance|unweighted|value", "distance(%s, unweighted) = %r, edges %r" % (what, got, c))
            ok, got = call(V, "ndm.mrca", ndm.mrca, n1, n2)
            if ok:
                gp = ids.get(id(got), "not-a-node-of-the-tree")
                if gp != m:
                    V("ndm.mrca|node" + ("|ancestor-pair" if m in (p, p2) else ""), "mrca(%s) is the node at %r, the path turns at %r" % (what, gp, m))
    for weighted in (True, False):
        want = sorted(R.between(p, p2)[0 if weighted else 1] for i, p in enumerate(R.order) for p2 in R.order[i + 1:])
        ok, got = call(V, "ndm.distances", ndm.distances, is_weighted_edge_distances=weighted)
        q += 1
        if ok:
            g = sorted(got)
            if len(g) != len(want) or not all(same(x, y, exact) for x, y in zip(g, want)):
                V("ndm.distances|%s" % ("weighted" if weighted else "unweighted"), "distances() = %r, node pairs give %r on %s" % (short(repr(g)), short(repr(want)), short(ref.to_newick(sn))))
    return q


# ---------------------------------------------------------------------------
# layer M: Tree.mrca

ROUTES = ("taxa", "taxon_labels", "leafset_bitmask")


def _prepare(case):
    """fresh tree in the requested encoding state"""
    shape, labels, sn, ns, bit, tree = make_tree(case)
    state = case["state"]
    if state == "current":
        tree.encode_bipartitions(suppress_unifurcations=False)
    elif state == "current_suppressed":
        tree.encode_bipartitions()
    elif state == "stale":
        tree.encode_bipartitions(suppress_unifurcations=False)
        lv = [nd for nd in tree.leaf_node_iter()]
        tt = [nd.taxon for nd in lv]
        for i, nd in enumerate(lv):
            nd.taxon = tt[(i + 1) % len(tt)]
    elif state != "refresh":
        raise ValueError(state)
    return labels, ns, bit, tree


def _mrca_call(tree, route, S, tx, bit, state, explicit, start=None):
    kw = {}
    if route == "taxa":
        kw["taxa"] = [tx[l] for l in S]
    elif route == "taxon_labels":
        kw["taxon_labels"] = list(S)
    else:
        m = 0
        for l in S:
            m |= 1 << bit[l]
        kw["leafset_bitmask"] = m
    if state in ("refresh", "stale"):
        kw["is_bipartitions_updated"] = False
    elif explicit:
        kw["is_bipartitions_updated"] = True
    if start is not None:
        kw["start_node"] = start
    return tree.mrca(**kw)


def check_mrca(case, ctx):
    """Tree.mrca on one (drawing, rooting, namespace, state): every non-empty subset x route."""
    n = case["n"]
    state = case["state"]
    V = Viol(ctx, case)
    q = 0
    labels = case_labels(case)
    shared = None
    only = case.get("only")
    extra = {"extra_low": "_lo", "extra_high": "_hi"}.get(case.get("ns", "exact"))
    with warnings.catch_warnings():
        warnings.simplefilter("ignore")
        if state in ("current", "current_suppressed"):
            try:
                shared = _prepare(case)
            except Exception as e:
                V("encode_bipartitions|exception|%s" % type(e).__name__, "preparing state %s raised %r" % (state, e))
                return 1
        for si, S in enumerate(subset_family(labels) if case.get("subsets") == "family" else subsets(labels)):
            if only is not None and list(S) != list(only):
                continue
            if shared is not None:
                _, ns, bit, tree = shared
            else:
                try:
                    _, ns, bit, tree = _prepare(case)
                except Exception as e:
                    V("encode_bipartitions|exception|%s" % type(e).__name__, "preparing state %s raised %r" % (state, e))
                    return q + 1
            tx = taxa_of(ns)
            routes = ROUTES[si % 3:] + ROUTES[:si % 3]
            if shared is None and n >= 5 and not case.get("all_routes"):
                routes = routes[:1]       # every call re-encodes; the route rotates with the subset
            for ri, route in enumerate(routes):
                q += 1
                name = "Tree.mrca|%s|%s" % (route, state)
                ok, got = call(V, name, _mrca_call, tree, route, S, tx, bit, state, explicit=(si + ri) % 2 == 1)
                if not ok:
                    continue
                snap = ref.snap_node(tree._seed_node)
                R = RefIndex(snap)
                try:
                    want = R.lca([R.leafpath[l] for l in S])
                except KeyError:
                    V("Tree.mrca|leaf-lost", "after the call the tree %s lacks a leaf of %r" % (ref.to_newick(snap, False), S))
                    continue
                gp = "None" if got is None else live_paths(tree).get(id(got), "not-a-node-of-the-tree")
                if gp != want:
                    feat = "single-taxon" if len(S) == 1 else ("whole-tree" if len(S) == n else "subset")
                    V("Tree.mrca|node|%s|%s" % (state, feat), "mrca(%s=%s) on %s (rooted=%r, ns %s, state %s) is the node at %r; deepest node whose leaves include them all is at %r" % (
                        route, short(str(list(S))), short(ref.to_newick(snap, False)), case["rooted"], case.get("ns", "exact"), state, gp, want))
            # a taxon of the namespace that is on no leaf: no node has it
            if extra is not None and state != "stale":
                q += 1
                ok, got = call(V, "Tree.mrca|taxa|absent-taxon", _mrca_call, tree, "taxa", list(S) + [extra], tx, bit, state, explicit=False)
                if ok and got is not None:
                    V("Tree.mrca|absent-taxon|node-returned", "mrca(taxa=%r) returned a node although %s is on no leaf" % (list(S) + [extra], extra))
    return q


def check_mrca_start(case, ctx):
    """Tree.mrca(start_node=X) on rooted trees with a current encoding: every node X, every subset."""
    n = case["n"]
    V = Viol(ctx, case)
    labels = case_labels(case)
    q = 0
    try:
        _, ns, bit, tree = _prepare(case)
    except Exception as e:
        V("encode_bipartitions|exception|%s" % type(e).__name__, "preparing raised %r" % (e,))
        return 1
    tx = taxa_of(ns)
    snap = ref.snap_node(tree._seed_node)
    R = RefIndex(snap)
    nodes = live_nodes(tree)
    ids = live_paths(tree)
    for p in R.order:
        cl = R.clade(p)
        for S in subsets(labels):
            q += 1
            ok, got = call(V, "Tree.mrca|start_node", _mrca_call, tree, "taxa", S, tx, bit, "current", False, start=nodes[p])
            if not ok:
                continue
            if set(S) <= cl:
                want = R.lca([R.leafpath[l] for l in S])
            else:
                want = "None"
            gp = "None" if got is None else ids.get(id(got), "not-a-node-of-the-tree")
            if gp != want:
                V("Tree.mrca|start_node|%s" % ("node" if want != "None" else "outside-start-subtree"),
                  "mrca(taxa=%r, start_node=node at %r) on %s gives node at %r, want %r" % (list(S), p, ref.to_newick(snap, False), gp, want))
    return q


# ---------------------------------------------------------------------------
# layer S: [encode; edit without updating the encoding; mrca(..., is_bipartitions_updated=False)]
#   every query gets its own fresh [build; encode; edit] sequence (the first refreshing call ends the
#   staleness); it is judged on the structure found AFTER the call.  Queries with the default
#   is_bipartitions_updated=True on a stale encoding are outside the statement and never made.

NEW_LABEL = "z"


def _node_at(tree, path):
    nd = tree._seed_node
    for i in path:
        nd = nd._child_nodes[i]
    return nd


def _in_subtree(p, root):
    return tuple(p[:len(root)]) == tuple(root)


def stale_prepare(case):
    """build, encode (default arguments), optionally one first mrca call"""
    n = case["n"]
    labels = U.LABELS[:n]
    ns, bit = build.make_namespace(labels, "exact")
    tree = build.build_tree((case["rooted"], ref.mk(resolve_shape(case["shape"]), lens=1, labels=labels)), ns)
    tree.encode_bipartitions()
    if case["pre"] == "encode+mrca":
        tree.mrca(taxa=[t for t in ns._taxa if t._label in labels])
    return labels, ns, dict(bit), tree


def stale_edit_menu(case):
    """edit descriptors (JSON-able) enumerated on the encoded tree"""
    labels, ns, bit, tree = stale_prepare(case)
    nodes = live_nodes(tree)
    paths = sorted(nodes)
    internal = [p for p in paths if nodes[p]._child_nodes]
    leavesp = [p for p in paths if not nodes[p]._child_nodes]
    out = []
    for p in internal:
        if p:
            out.append(["reseed_at", list(p)])
            out.append(["reroot_at_node", list(p)])
            out.append(["reroot_at_edge", list(p)])       # documented domain: internal edges
    for p in paths:
        if p:
            out.append(["to_outgroup_position", list(p)])
    for i, p in enumerate(leavesp):
        for p2 in leavesp[i + 1:]:
            out.append(["swap_leaf_taxa", list(p), list(p2)])
    for p in paths:
        if not p:
            continue
        for z in internal:                                   # move the subtree under another internal node
            if _in_subtree(z, p) or tuple(z) == tuple(p[:-1]):
                continue
            out.append(["spr_move_under", list(p), list(z)])
        if p in leavesp:
            for y in paths:                                  # regraft the leaf on the edge above y
                if not y or tuple(y) == tuple(p):
                    continue
                out.append(["spr_regraft_on_edge", list(p), list(y)])
    for z in internal:
        out.append(["add_leaf_new_taxon", list(z)])
    if len(leavesp) >= 2:
        for p in leavesp:
            out.append(["prune_leaf", list(p)])
    return out


def stale_apply(tree, ns, edit):
    name = edit[0]
    x = _node_at(tree, edit[1])
    if name == "reseed_at":
        tree.reseed_at(x, update_bipartitions=False)
    elif name == "reroot_at_node":
        tree.reroot_at_node(x, update_bipartitions=False)
    elif name == "reroot_at_edge":
        tree.reroot_at_edge(x.edge, update_bipartitions=False)
    elif name == "to_outgroup_position":
        tree.to_outgroup_position(x, update_bipartitions=False)
    elif name == "swap_leaf_taxa":
        y = _node_at(tree, edit[2])
        x.taxon, y.taxon = y.taxon, x.taxon
    elif name == "spr_move_under":
        z = _node_at(tree, edit[2])
        x._parent_node.remove_child(x)
        z.add_child(x)
    elif name == "spr_regraft_on_edge":
        y = _node_at(tree, edit[2])
        x._parent_node.remove_child(x)
        py = y._parent_node
        idx = py._child_nodes.index(y)
        py.remove_child(y)
        nn = tree.node_factory()
        py.insert_child(idx, nn)
        nn.add_child(y)
        nn.add_child(x)
    elif name == "add_leaf_new_taxon":
        x.new_child(taxon=ns.new_taxon(label=NEW_LABEL))
    elif name == "prune_leaf":
        tree.prune_subtree(x, update_bipartitions=False)
    else:
        raise ValueError(name)


def _decidable(tree):
    """the edited tree must be a proper tree whose leaves carry distinct taxa and whose internal nodes carry none"""
    if ref.wellformed(tree):
        return None
    snap = ref.snap_node(tree._seed_node)
    seen = set()
    for nd in ref.preorder(snap):
        if nd[3]:
            if nd[0] is not None:
                return None
        else:
            if nd[0] is None or nd[0] in seen:
                return None
            seen.add(nd[0])
    return snap


def stale_queries(snap, removed):
    """[(subset, start path or None)] on the edited structure: every non-empty subset of the leaf taxa without
    start_node; for every node X as start_node: every non-empty subset of its clade and, where one exists,
    X's clade plus one outside taxon and one outside taxon alone; subsets containing a pruned taxon"""
    R = RefIndex(snap)
    labels = sorted(R.leafpath)
    out = []
    for S in subsets(labels):
        out.append((list(S), None))
    for p in R.order:
        cl = sorted(R.clade(p))
        if not p:
            continue
        for S in subsets(cl):
            out.append((list(S), list(p)))
        outside = [l for l in labels if l not in cl]
        if outside:
            out.append((cl + outside[:1], list(p)))
            out.append((outside[-1:], list(p)))
    for r in removed:
        out.append(([r], None))
        out.append((labels[:1] + [r], None))
    return out


def check_stale(case, ctx):
    """one (shape, rooting, pre-state, edit): every query on its own fresh sequence"""
    V = Viol(ctx, case)
    edit = case["edit"]
    q = 0
    with warnings.catch_warnings():
        warnings.simplefilter("ignore")
        # template: what does the edited tree look like?
        try:
            labels, ns, bit, tree = stale_prepare(case)
            stale_apply(tree, ns, edit)
        except Exception:
            ctx.count("stale_edits_not_deciding_edit_raised")
            return 0
        snap0 = _decidable(tree)
        if snap0 is None:
            ctx.count("stale_edits_not_deciding_tree_not_proper")
            return 0
        removed = [l for l in labels if l not in ref.leaves(snap0)]
        queries = stale_queries(snap0, removed)
        if case["pre"] == "encode+mrca":
            queries = [x for x in queries if x[1] is None]
        for qi, (S, sp) in enumerate(queries):
            route = ROUTES[qi % 3]
            labels, ns, bit, tree = stale_prepare(case)
            stale_apply(tree, ns, edit)
            tx = taxa_of(ns)
            if NEW_LABEL in tx:
                bit[NEW_LABEL] = len(labels)
            kw = {"is_bipartitions_updated": False}
            if route == "taxa":
                kw["taxa"] = [tx[l] for l in S]
            elif route == "taxon_labels":
                kw["taxon_labels"] = list(S)
            else:
                m = 0
                for l in S:
                    m |= 1 << bit[l]
                kw["leafset_bitmask"] = m
            start = None
            if sp is not None:
                start = _node_at(tree, sp)
                kw["start_node"] = start
            stag = "no-start-node" if sp is None else "start_node"
            base = "Tree.mrca|refresh-requested|after:%s|%s|%s" % (edit[0], route, stag)
            q += 1
            try:
                got = tree.mrca(**kw)
            except Exception as e:
                V("%s|exception|%s" % (base, type(e).__name__), "after %r, mrca(%s=%r, start=%r, is_bipartitions_updated=False) raised %r on %s" % (
                    edit, route, S, sp, e, ref.to_newick(snap0, False)))
                continue
            snap = _decidable(tree)
            if snap is None:
                V(base + "|tree-damaged", "after %r and the refreshing mrca call the tree is no longer a proper tree" % (edit,))
                continue
            ids = live_paths(tree)
            R = RefIndex(snap)
            if start is not None and id(start) not in ids:
                ctx.count("stale_queries_not_deciding_start_node_left_the_tree")
                continue
            present = all(l in R.leafpath for l in S)
            want = "None"
            if present:
                lca = R.lca([R.leafpath[l] for l in S])
                if start is None or _in_subtree(lca, ids[id(start)]):
                    want = lca
            gp = "None" if got is None else ids.get(id(got), "not-a-node-of-the-tree")
            if gp != want:
                kind = "none-returned" if gp == "None" else ("node-returned" if want == "None" else "wrong-node")
                V("%s|%s" % (base, kind), "[%s; %r; mrca(%s=%r%s, is_bipartitions_updated=False)] on %s (rooted=%r) now %s: got node at %r, deepest node whose leaves include them all%s is at %r" % (
                    case["pre"], edit, route, S, "" if sp is None else ", start_node=node at %r" % (sp,), ref.to_newick(ref.mk(resolve_shape(case["shape"])), False),
                    case["rooted"], ref.to_newick(snap, False), gp, "" if sp is None else " below the start node", want))
    return q


def stale_chunks(tier):
    b = bounds(tier)
    out = []
    for n in range(2, b["mrca_stale_edit_up_to"] + 1):
        ns = len(U.shapes(n))
        step = 1 if n >= 4 else 4
        for lo in range(0, ns, step):
            out.append({"kind": "stale", "n": n, "lo": lo, "hi": min(ns, lo + step), "tier": tier})
    return out


def run_stale(chunk, ctx):
    n = chunk["n"]
    shapes = U.shapes(n)
    for si in range(chunk["lo"], chunk["hi"]):
        shape = shapes[si]
        for rooted in (True, False):
            for pre in ("encode", "encode+mrca"):
                base = {"kind": "stale", "n": n, "shape": shape, "rooted": rooted, "pre": pre}
                try:
                    with warnings.catch_warnings():
                        warnings.simplefilter("ignore")
                        menu = stale_edit_menu(base)
                except Exception:
                    ctx.count("stale_prepare_raised")
                    continue
                for edit in menu:
                    case = dict(base, edit=edit)
                    q = check_stale(case, ctx)
                    ctx.count("stale_edits")
                    if q:
                        ctx.case(("stale", shape, rooted, pre, repr(edit)), n >= 3, n=q)
                        ctx.count("stale_edits_deciding")
                        ctx.count("stale_mrca_queries", q)
        if n >= 3:
            ctx.sample({"layer": "encode; edit; mrca(is_bipartitions_updated=False)", "tree": ref.to_newick(ref.mk(shape), False),
                        "edits": len(menu)}, 1)
    return None


# ---------------------------------------------------------------------------
# layer NJ / UPGMA

class OrderedTaxa(set):
    """PhylogeneticDistanceMatrix._mapped_taxa is a set of id-hashed Taxon objects: its
    iteration order (= the order of the NJ / UPGMA node pool, hence every tie-break, and the
    row order of write_csv) differs from process to process.  It is the environment of
    nj_tree / upgma_tree; the harness fixes it explicitly and enumerates it (all orders for
    n <= 4) so that verdicts and replays do not depend on memory addresses."""

    def __init__(self, seq):
        seq = list(seq)
        set.__init__(self, seq)
        self._seq = seq

    def __iter__(self):
        return iter(self._seq)


def force_order(V, pdm, order, where):
    tx = taxa_of(pdm.taxon_namespace)
    want = [tx[l] for l in order if l in tx]
    if len(want) != len(order) or set(pdm._mapped_taxa) != set(want):
        V("pdm|mapped-taxa|%s" % where, "matrix maps taxa %r, tree has %r" % (sorted(t._label for t in pdm._mapped_taxa), sorted(order)))
        return False
    pdm._mapped_taxa = OrderedTaxa(want)
    return True


def pool_orders(labels, mode, pair=None):
    """orders of the node pool.  "all": every permutation; "basic": as-is and reversed; "rot": plus
    every rotation; "pair": "rot" plus orders that put the two taxa of `pair` first, in the middle and
    last of the pair scan (which runs over pool index pairs i < j in lexicographic order)."""
    labels = list(labels)
    if mode == "all":
        return [list(p) for p in itertools.permutations(labels)]
    out = [labels, labels[::-1]]
    if mode in ("rot", "pair"):
        for k in range(1, len(labels)):
            out.append(labels[k:] + labels[:k])
    if mode == "pair" and pair:
        x, y = pair
        rest = [l for l in labels if l not in pair]
        h = len(rest) // 2
        for a, b2 in ((x, y), (y, x)):
            out.append([a, b2] + rest)                                  # scanned first
            out.append(rest + [a, b2])                                  # scanned last
            out.append(rest[:1] + [a] + rest[1:h + 1] + [b2] + rest[h + 1:])   # somewhere in the middle
            out.append([a] + rest + [b2])                               # end of the first row
        seen, uniq = set(), []
        for o in out:
            if tuple(o) not in seen:
                seen.add(tuple(o))
                uniq.append(o)
        out = uniq
    return out


CSV_ROUTES = [
    # (tag, write kwargs, read kwargs, reuse the tree's namespace)
    ("csv", {}, {}, True),
    ("csv-newns", {}, {}, False),
    ("csv-tab", {"delimiter": "\t"}, {"delimiter": "\t"}, True),
    ("csv-rownames-only", {"is_first_row_column_names": False}, {"is_first_row_column_names": False}, True),
    ("csv-colnames-only", {"is_first_column_row_names": False}, {"is_first_column_row_names": False}, False),
]


def via_csv(V, pdm, ns, route, labels):
    tag, wkw, rkw, reuse = route
    if not force_order(V, pdm, labels, "from_tree"):
        return None
    buf = io.StringIO()
    ok, _ = call(V, "pdm.write_csv|%s" % tag, pdm.write_csv, buf, is_normalize_by_tree_size=False, **wkw)
    if not ok:
        return None
    text = buf.getvalue()
    if "delimiter" in wkw and len(labels) >= 2 and wkw["delimiter"] not in text:
        V("pdm.write_csv|delimiter-ignored", "write_csv(delimiter=%r) wrote %r" % (wkw["delimiter"], text[:60]))
        return None
    src = io.StringIO(text)
    kw = dict(rkw)
    if reuse:
        kw["taxon_namespace"] = ns
    ok, p2 = call(V, "pdm.from_csv|%s" % tag, PhylogeneticDistanceMatrix.from_csv, src, **kw)
    if not ok:
        return None
    if not force_order(V, p2, labels, "from_csv"):
        return None
    return p2


def check_matrix_readback(V, p2, tag, labels, refd, exact, text):
    """a matrix read back from CSV: entries, symmetry, zero diagonal, summaries"""
    q = 0
    tx = taxa_of(p2.taxon_namespace)
    if not all(l in tx for l in labels):
        V("pdm.from_csv|taxa|%s" % tag, "read-back namespace has %r, tree has %r" % (sorted(tx), labels))
        return 1
    for l1 in labels:
        for l2 in labels:
            q += 1
            ok, got = call(V, "pdm.from_csv|patristic_distance|%s" % tag, p2.patristic_distance, tx[l1], tx[l2])
            if ok and not same(got, refd[(l1, l2)], exact):
                V("pdm.from_csv|patristic_distance|value|%s" % tag, "after %s: d(%s,%s) = %r, tree has %r (%s)" % (tag, l1, l2, got, refd[(l1, l2)], text))
    if len(labels) >= 2:
        up = [(a, b2) for i, a in enumerate(labels) for b2 in labels[i + 1:]]
        vals = [refd[p] for p in up]
        q += 3
        ok, got = call(V, "pdm.from_csv|distances", p2.distances)
        if ok:
            g = sorted(got)
            if len(g) != len(vals) or not all(same(x, y, exact) for x, y in zip(g, sorted(vals))):
                V("pdm.from_csv|distances|value", "after a CSV round trip distances() = %r, the tree's pairs give %r (%s)" % (g, sorted(vals), text))
        ok, got = call(V, "pdm.from_csv|mean_pairwise_distance", p2.mean_pairwise_distance)
        if ok and not same(got, sum(vals) / float(len(vals)), False):
            V("pdm.from_csv|mean_pairwise_distance|value", "after a CSV round trip mean_pairwise_distance = %r, want %r" % (got, sum(vals) / float(len(vals))))
        near = [min(refd[(a, b2)] for b2 in labels if b2 != a) for a in labels]
        ok, got = call(V, "pdm.from_csv|mean_nearest_taxon_distance", p2.mean_nearest_taxon_distance)
        if ok and not same(got, sum(near) / float(len(near)), False):
            V("pdm.from_csv|mean_nearest_taxon_distance|value", "after a CSV round trip mean_nearest_taxon_distance = %r, want %r" % (got, sum(near) / float(len(near))))
    return q


def check_csvmat(case, ctx):
    """one CSV write/read of the matrix of a tree (no tree building afterwards)"""
    shape, labels, sn, ns, bit, tree = make_tree(case)
    V = Viol(ctx, case)
    R = RefIndex(sn)
    ok, pdm = call(V, "Tree.phylogenetic_distance_matrix", tree.phylogenetic_distance_matrix)
    if not ok:
        return 1
    refd = dict(((a, b2), R.between(R.leafpath[a], R.leafpath[b2])[0]) for a in labels for b2 in labels)
    p2 = via_csv(V, pdm, ns, CSV_ROUTES[case.get("route", 0)], labels)
    if p2 is None:
        return 1
    return 1 + check_matrix_readback(V, p2, CSV_ROUTES[case.get("route", 0)][0], labels, refd, True, short(ref.to_newick(sn)))


def judge_nj(V, t2, tag, labels, want_splits, text):
    probs = ref.wellformed(t2)
    if probs:
        V("nj_tree|malformed|%s" % tag, "; ".join(probs))
        return
    r2, s2 = ref.snapshot(t2)
    if sorted(x for x in ref.leaves(s2) if x is not None) != sorted(labels) or None in ref.leaves(s2):
        V("nj_tree|leaves|%s" % tag, "NJ tree has leaves %r, matrix has %r" % (ref.leaves(s2), labels))
        return
    got, _ = ref.split_lengths(s2, False)
    if set(got) != set(want_splits):
        V("nj_tree|topology|%s" % tag, "NJ tree %s does not have the unrooted splits of the generating tree %s" % (short(ref.to_newick(s2), 400), text))
        return
    for k in want_splits:
        if not same(got[k], want_splits[k], False):
            V("nj_tree|edge-length|%s" % tag, "NJ tree %s: split %s has length %r, generating tree %s has %r" % (
                short(ref.to_newick(s2), 400), sorted(sorted(x) for x in k), got[k], text, want_splits[k]))
            return
    if r2 is not False:
        V("nj_tree|rooting|%s" % tag, "NJ tree is_rooted=%r (documented: unrooted)" % (r2,))


def check_nj(case, ctx):
    """NJ on the distances of one binary tree (unrooted reading), directly and via CSV."""
    shape, labels, sn, ns, bit, tree = make_tree(case)
    V = Viol(ctx, case)
    R = RefIndex(sn)
    text = short(ref.to_newick(sn), 400)
    q = 0
    ok, pdm = call(V, "Tree.phylogenetic_distance_matrix", tree.phylogenetic_distance_matrix)
    if not ok:
        return 1
    want, _ = ref.split_lengths(sn, False)
    refd = dict(((a, b2), R.between(R.leafpath[a], R.leafpath[b2])[0]) for a in labels for b2 in labels)
    unit = ref.mk(shape, lens=[None] + [1] * (nnodes(shape) - 1), labels=labels)
    wu, _ = ref.split_lengths(unit, False)
    for order in pool_orders(labels, case.get("orders", "basic")):
        if not force_order(V, pdm, order, "from_tree"):
            break
        q += 1
        ok, t2 = call(V, "pdm.nj_tree", pdm.nj_tree)
        if ok:
            judge_nj(V, t2, "direct", labels, want, text)
        if case.get("unweighted"):
            q += 1
            ok, t2 = call(V, "pdm.nj_tree|unweighted", pdm.nj_tree, is_weighted_edge_distances=False)
            if ok:
                judge_nj(V, t2, "edge-counts", labels, wu, ref.to_newick(unit))
    for ri in case.get("csv", []):
        route = CSV_ROUTES[ri]
        p2 = via_csv(V, pdm, ns, route, labels)
        if p2 is None:
            continue
        q += check_matrix_readback(V, p2, route[0], labels, refd, True, text)
        for order in pool_orders(labels, "basic"):
            force_order(V, p2, order, "from_csv")
            q += 1
            ok, t2 = call(V, "pdm.nj_tree|%s" % route[0], p2.nj_tree)
            if ok:
                judge_nj(V, t2, route[0], labels, want, text)
    return q


def heights_of(node):
    """{clade: 0 for a leaf | [height of the node measured through each child]}; the value
    handed upwards is the one through the first child (every node is judged on all of them)"""
    out = {}

    def rec(nd):
        if not nd[3]:
            out[ref.clade(nd)] = 0
            return 0
        hs = [rec(c) + (c[2] or 0) for c in nd[3]]
        out[ref.clade(nd)] = hs
        return hs[0]
    rec(node)
    return out


def judge_upgma(V, t2, tag, labels, want_heights, exact, text):
    """want_heights: {clade: height}"""
    probs = ref.wellformed(t2)
    if probs:
        V("upgma_tree|malformed|%s" % tag, "; ".join(probs))
        return
    r2, s2 = ref.snapshot(t2)
    if sorted(x for x in ref.leaves(s2) if x is not None) != sorted(labels) or None in ref.leaves(s2):
        V("upgma_tree|leaves|%s" % tag, "UPGMA tree has leaves %r, matrix has %r" % (ref.leaves(s2), labels))
        return
    if ref.rooted_clades(s2) != set(want_heights):
        V("upgma_tree|clades|%s" % tag, "UPGMA tree %s does not have the clades of %s" % (short(ref.to_newick(s2), 400), text))
        return
    hs = heights_of(s2)
    for cl, want in want_heights.items():
        got = hs[cl]
        if got == 0 and want == 0:
            continue
        if not isinstance(got, list) or not all(same(g, want, exact) for g in got):
            V("upgma_tree|node-height|%s" % tag, "UPGMA tree %s: clade %s sits at heights %r above its children's tips, expected %r (%s)" % (
                short(ref.to_newick(s2), 400), sorted(cl), got, want, text))
            return
    if r2 is not True:
        V("upgma_tree|rooting|%s" % tag, "UPGMA tree is_rooted=%r (documented: rooted)" % (r2,))


ZERO_REPS = {"0": 0, "0.0": 0.0, "None": None}


def ultrametric_snapshot(shape, ranks, hpat, labels=U.LABELS, zero=None):
    """ranks: rank (1..m) per internal node in pre-order; height of rank r from pattern.
    zero in ZERO_REPS: the rank-1 node (always a cherry; every cherry is the rank-1 node of some
    ranking) sits at height zero, its two pendant lengths are written 0, 0.0 or None (missing)."""
    it = iter(ranks)

    def H(r):
        if zero is not None and r == 1:
            return 0
        if hpat == "int":
            return r
        if hpat == "pow2":
            return 2 ** (r - 1)
        if hpat == "quarter":
            return 1 + (r - 1) / 4.0
        if hpat == NONDYADIC:
            return 0.1 * r + 0.03 * r * r
        raise ValueError(hpat)

    def rec(s):
        if isinstance(s, int):
            return 0, (labels[s], None, None, ())
        r = next(it)
        h = H(r)
        kids = []
        for c in s:
            hc, k = rec(c)
            kids.append((k[0], k[1], (ZERO_REPS[zero] if (zero is not None and r == 1) else h - hc), k[3]))
        return h, (None, None, None, tuple(kids))
    h, root = rec(shape)
    return root


def rankings(shape):
    """every assignment of distinct ranks 1..m to the internal nodes (pre-order) with parent above child"""
    internal = [p for p in U.paths(shape) if not isinstance(U.at(shape, p), int)]
    m = len(internal)
    out = []
    for perm in itertools.permutations(range(1, m + 1)):
        rk = dict(zip(internal, perm))
        if all(rk[p[:-1]] > rk[p] for p in internal if p):
            out.append(list(perm))
    return out


def check_upgma(case, ctx):
    """UPGMA on the distances of one ranked ultrametric tree, directly and via CSV."""
    shape = resolve_shape(case["shape"])
    n = case["n"]
    labels = case_labels(case)
    hpat = case["hpat"]
    exact = hpat != NONDYADIC
    V = Viol(ctx, case)
    zero = case.get("zero")
    ztag = "|zero-distance-cherry" if zero is not None else ""
    sn = ultrametric_snapshot(shape, resolve_ranks(case["ranks"], shape), hpat, labels=labels, zero=zero)
    ns, bit = build.make_namespace(labels, "exact")
    tree = build.build_tree((True, sn), ns)
    R = RefIndex(sn)
    text = short(ref.to_newick(sn), 400)
    hs = heights_of(sn)
    want = dict((cl, (0 if not isinstance(h, list) else h[0])) for cl, h in hs.items())
    if exact and any(isinstance(h, list) and any(x != h[0] for x in h) for h in hs.values()):
        raise AssertionError("harness: generating tree is not ultrametric: %s" % text)
    q = 1
    ok, pdm = call(V, "Tree.phylogenetic_distance_matrix", tree.phylogenetic_distance_matrix)
    if not ok:
        return 1
    refd = dict(((a, b2), R.between(R.leafpath[a], R.leafpath[b2])[0]) for a in labels for b2 in labels)
    pair = None
    if zero is not None:
        zc = [cl for cl, h in want.items() if len(cl) == 2 and h == 0]
        if len(zc) != 1:
            raise AssertionError("harness: expected exactly one zero-height cherry in %s" % text)
        pair = sorted(zc[0])
    for order in pool_orders(labels, case.get("orders", "basic"), pair):
        if not force_order(V, pdm, order, "from_tree"):
            break
        q += 1
        ok, t2 = call(V, "pdm.upgma_tree", pdm.upgma_tree)
        if ok:
            judge_upgma(V, t2, "direct" + ztag, labels, want, exact, text)
    for ri in case.get("csv", []):
        route = CSV_ROUTES[ri]
        p2 = via_csv(V, pdm, ns, route, labels)
        if p2 is None:
            continue
        q += check_matrix_readback(V, p2, route[0], labels, refd, True, text)
        for order in pool_orders(labels, "pair" if pair else "basic", pair):
            force_order(V, p2, order, "from_csv")
            q += 1
            ok, t2 = call(V, "pdm.upgma_tree|%s" % route[0], p2.upgma_tree)
            if ok:
                judge_upgma(V, t2, route[0] + ztag, labels, want, exact, text)
    return q


def reference_upgma(labels, dist):
    """Textbook UPGMA with exact arithmetic: distance between clusters = mean of the
    original distances over all cross pairs (kept as the exact cross-pair SUM, which is additive
    under union, divided by the number of cross pairs).  Returns {clade: height} or None on a tie."""
    clusters = [frozenset([l]) for l in labels]
    heights = dict((c, Fraction(0)) for c in clusters)
    S = {}
    for i, a in enumerate(labels):
        for b2 in labels[i + 1:]:
            v = Fraction(dist[(a, b2)])
            S[(frozenset([a]), frozenset([b2]))] = v
            S[(frozenset([b2]), frozenset([a]))] = v
    while len(clusters) > 1:
        best = None
        tie = False
        for i, a in enumerate(clusters):
            for b2 in clusters[i + 1:]:
                d = S[(a, b2)] / (len(a) * len(b2))
                if best is None or d < best[0]:
                    best, tie = (d, a, b2), False
                elif d == best[0]:
                    tie = True
        if tie:
            return None
        d, a, b2 = best
        c = a | b2
        heights[c] = d / 2
        clusters = [x for x in clusters if x not in (a, b2)]
        for x in clusters:
            v = S[(a, x)] + S[(b2, x)]
            S[(c, x)] = v
            S[(x, c)] = v
        clusters.append(c)
    return heights


def check_upgma_def(case, ctx):
    """UPGMA on a non-ultrametric additive matrix vs the textbook definition (needed to see
    cluster-size weighting, which ultrametric input cannot show)."""
    shape, labels, sn, ns, bit, tree = make_tree(case)
    V = Viol(ctx, case)
    R = RefIndex(sn)
    refd = dict(((a, b2), R.between(R.leafpath[a], R.leafpath[b2])[0]) for a in labels for b2 in labels)
    want = reference_upgma(labels, refd)
    if want is None:
        if case.get("tl"):
            raise AssertionError("harness: the large-representative length pattern must be tie-free")
        return 0
    ok, pdm = call(V, "Tree.phylogenetic_distance_matrix", tree.phylogenetic_distance_matrix)
    if not ok:
        return 1
    q = 0
    for order in pool_orders(labels, "all" if len(labels) <= 4 else "basic"):
        if not force_order(V, pdm, order, "from_tree"):
            break
        q += 1
        ok, t2 = call(V, "pdm.upgma_tree", pdm.upgma_tree)
        if not ok:
            continue
        probs = ref.wellformed(t2)
        if probs:
            V("upgma_tree|malformed|definition", "; ".join(probs))
            continue
        s2 = ref.snapshot(t2)[1]
        if ref.rooted_clades(s2) != set(want):
            V("upgma_tree|definition|clades", "UPGMA of the distances of %s gives %s; size-weighted average linkage gives clades %s" % (
                short(ref.to_newick(sn), 400), short(ref.to_newick(s2), 400), short(repr(sorted(sorted(c) for c in want)), 400)))
            continue
        hs = heights_of(s2)
        for cl, h in want.items():
            got = hs[cl]
            if h == 0:
                continue
            if not isinstance(got, list) or not all(same(g, float(h), False) for g in got):
                V("upgma_tree|definition|node-height", "UPGMA of the distances of %s gives %s: clade %s at %r, average linkage joins it at %r" % (
                    short(ref.to_newick(sn), 400), short(ref.to_newick(s2), 400), sorted(cl), got, float(h)))
                break
    return max(q, 1)


# ---------------------------------------------------------------------------
# chunking

def chunks(tier):
    b = bounds(tier)
    out = big_chunks(tier) + stale_chunks(tier) + reuse_chunks(tier)      # the long ones first
    for n in range(1, b["max_leaves"] + 1):
        ns = len(U.shapes(n))
        step = {1: 1, 2: 1, 3: 1, 4: 2, 5: 4, 6: 8}[n]
        for lo in range(0, ns, step):
            out.append({"kind": "dist", "n": n, "lo": lo, "hi": min(ns, lo + step), "tier": tier})
        step = {1: 1, 2: 1, 3: 1, 4: 2, 5: 3, 6: 6}[n]
        for lo in range(0, ns, step):
            out.append({"kind": "mrca", "n": n, "lo": lo, "hi": min(ns, lo + step), "tier": tier})
    for n in range(2, b["nj_pattern_leaves"] + 1):
        nb = len(U.shapes(n, True))
        step = {2: 1, 3: 3, 4: 5, 5: 3, 6: 32 if tier == "quick" else 2, 7: 64}[n]
        for lo in range(0, nb, step):
            out.append({"kind": "nj", "n": n, "lo": lo, "hi": min(nb, lo + step), "tier": tier})
    for n in range(2, b["upgma_ranked_up_to"] + 1):
        nb = len(U.shapes(n, True))
        step = {2: 1, 3: 3, 4: 15, 5: 15, 6: 32, 7: 64}[n]
        for lo in range(0, nb, step):
            out.append({"kind": "upgma", "n": n, "lo": lo, "hi": min(nb, lo + step), "tier": tier})
    for n in range(3, b["upgma_definition_up_to"] + 1):
        nb = len(U.shapes(n, True))
        step = {3: 3, 4: 1, 5: 1}[n]
        for lo in range(0, nb, step):
            out.append({"kind": "upgmadef", "n": n, "lo": lo, "hi": min(nb, lo + step), "tier": tier})
    return out


# ---------------------------------------------------------------------------
# layer R: histories on ONE PhylogeneticDistanceMatrix object
#   [query q on source A; re-compile the SAME object for source B; query q'] - q' is judged by the
#   path-based reference for B, never by another library call.

REUSE_MENU = [
    # (name, shape, labels, lengths: ("ultra", ranks, hpat) | pattern name)
    ("abc", ((0, 1), 2), ["a", "b", "c"], ("ultra", "postorder", "int")),
    ("abcde", (((0, 1), 2), (3, 4)), ["a", "b", "c", "d", "e"], ("ultra", "postorder", "int")),
    ("de", (0, 1), ["d", "e"], ("ultra", "postorder", "int")),
    ("acb", ((0, 2), 1), ["a", "b", "c"], ("ultra", "postorder", "quarter")),
    ("star-bcdf", (0, 1, 2, 3), ["b", "c", "d", "f"], "cyc123"),
    ("cdef", ((0, 1), (2, 3)), ["c", "d", "e", "f"], "cyc12"),
]
REUSE_ALL_LABELS = ["a", "b", "c", "d", "e", "f"]
REUSE_TRIPLES = [(0, 1, 2), (1, 2, 0), (2, 0, 1), (1, 0, 4), (4, 5, 1), (5, 2, 3)]


class Src(object):
    """one source: the tree, its reference, and what the matrix is compiled from"""

    def __init__(self, idx, ns, route):
        name, shape, labels, lens = REUSE_MENU[idx]
        self.name, self.labels, self.route = name, list(labels), route
        if isinstance(lens, tuple):
            self.sn = ultrametric_snapshot(shape, resolve_ranks(lens[1], shape), lens[2], labels=labels)
            self.ultrametric = True
        else:
            self.sn = ref.mk(shape, lens=resolve_lens(lens, shape), labels=labels)
            self.ultrametric = False
        self.binary = U.is_binary(shape)
        self.ns = ns
        self.tree = build.build_tree((True, self.sn), ns)
        self.R = RefIndex(self.sn)
        self.tx = taxa_of(ns)
        self.text = ref.to_newick(self.sn)
        self.ref = {}
        for a in labels:
            for b2 in labels:
                d, c, m, _ = self.R.between(self.R.leafpath[a], self.R.leafpath[b2])
                self.ref[(a, b2)] = (d, c, m)
        self.upairs = [(a, b2) for i, a in enumerate(labels) for b2 in labels[i + 1:]]
        self.has_steps = route == "tree"      # a matrix compiled from a table knows distances only

    def compile_into(self, pdm):
        if self.route == "tree":
            pdm.compile_from_tree(self.tree)
        else:
            # the table from_csv would hand over: one row per taxon, the cells to the right of the diagonal
            dd = {}
            for i, a in enumerate(self.labels):
                dd[self.tx[a]] = dict((self.tx[b2], float(self.ref[(a, b2)][0])) for b2 in self.labels[i + 1:])
            pdm.compile_from_dict(dd, self.ns)


def _cmp(V, name, got, want, what, numeric=True):
    okv = same(got, want, False) if numeric else (got == want)
    if not okv:
        V("%s|value" % name, "%s = %r, want %r (%s)" % (name, got, want, what))


def q_patristic(pdm, S, V):
    for a in S.labels:
        for b2 in S.labels:
            _cmp(V, "patristic_distance", pdm.patristic_distance(S.tx[a], S.tx[b2]), S.ref[(a, b2)][0], "%s,%s on %s" % (a, b2, S.text))


def q_steps(pdm, S, V):
    for a in S.labels:
        for b2 in S.labels:
            _cmp(V, "path_edge_count", pdm.path_edge_count(S.tx[a], S.tx[b2]), S.ref[(a, b2)][1], "%s,%s on %s" % (a, b2, S.text))


def q_mrca(pdm, S, V):
    ids = live_paths(S.tree)
    for a in S.labels:
        for b2 in S.labels:
            got = ids.get(id(pdm.mrca(S.tx[a], S.tx[b2])), "not-a-node-of-the-tree")
            _cmp(V, "mrca", got, S.ref[(a, b2)][2], "%s,%s on %s" % (a, b2, S.text), numeric=False)


def _q_distances(weighted, normed):
    def q(pdm, S, V):
        k = 0 if weighted else 1
        norm = 1.0
        if normed:
            norm = float(S.R.total) if weighted else float(S.R.n_nodes)
        want = sorted(S.ref[p][k] / norm for p in S.upairs)
        got = sorted(pdm.distances(is_weighted_edge_distances=weighted, is_normalize_by_tree_size=normed))
        if len(got) != len(want) or not all(same(x, y, False) for x, y in zip(got, want)):
            V("distances|value", "distances(weighted=%r, normalised=%r) = %r, want %r (%s)" % (weighted, normed, got, want, S.text))
        _cmp(V, "sum_of_distances", pdm.sum_of_distances(is_weighted_edge_distances=weighted, is_normalize_by_tree_size=normed), sum(want), S.text)
    return q


def _q_summary(stat, weighted, normed, filt):
    def q(pdm, S, V):
        k = 0 if weighted else 1
        members = list(S.labels)
        fn = None
        if filt == "first-two":
            members = members[:2]
        elif filt == "all-but-first":
            members = members[1:]
        if len(members) < 2:
            return
        if filt:
            fn = lambda t, _m=frozenset(members): t._label in _m
        norm = 1.0
        if normed:
            norm = float(S.R.total) if weighted else float(S.R.n_nodes)
        if stat == "mean_pairwise_distance":
            vals = [S.ref[(a, b2)][k] for i, a in enumerate(members) for b2 in members[i + 1:]]
        else:
            vals = [min(S.ref[(a, b2)][k] for b2 in members if b2 != a) for a in members]
        want = sum(vals) / float(len(vals)) / norm
        got = getattr(pdm, stat)(filter_fn=fn, is_weighted_edge_distances=weighted, is_normalize_by_tree_size=normed)
        _cmp(V, stat, got, want, "taxa %r, weighted=%r, normalised=%r on %s" % (members, weighted, normed, S.text))
    return q


def q_iters(pdm, S, V):
    want = sorted(S.labels)
    _cmp(V, "taxon_iter", sorted(t._label for t in pdm.taxon_iter()), want, S.text, numeric=False)
    _cmp(V, "__iter__", sorted(t._label for t in pdm), want, S.text, numeric=False)
    wp = sorted(tuple(sorted(p)) for p in S.upairs)
    gp = sorted(tuple(sorted((t1._label, t2._label))) for t1, t2 in pdm.distinct_taxon_pair_iter())
    _cmp(V, "distinct_taxon_pair_iter", gp, wp, S.text, numeric=False)
    f2 = frozenset(S.labels[:2])
    gf = sorted(t._label for t in pdm.taxon_iter(filter_fn=lambda t: t._label in f2))
    _cmp(V, "taxon_iter|filter", gf, sorted(f2), S.text, numeric=False)


def q_table(pdm, S, V):
    dt = pdm.as_data_table()
    _cmp(V, "as_data_table|row-names", sorted(dt.row_name_iter()), sorted(S.labels), S.text, numeric=False)
    _cmp(V, "as_data_table|column-names", sorted(dt.column_name_iter()), sorted(S.labels), S.text, numeric=False)
    for a in S.labels:
        for b2 in S.labels:
            _cmp(V, "as_data_table|cell", dt[a, b2], S.ref[(a, b2)][0], "%s,%s on %s" % (a, b2, S.text))


def q_csv(pdm, S, V):
    import csv as _csv
    buf = io.StringIO()
    pdm.write_csv(buf, is_normalize_by_tree_size=False)
    rows = list(_csv.reader(io.StringIO(buf.getvalue())))
    head = rows[0][1:]
    _cmp(V, "write_csv|header", sorted(head), sorted(S.labels), S.text, numeric=False)
    _cmp(V, "write_csv|row-names", sorted(r[0] for r in rows[1:]), sorted(S.labels), S.text, numeric=False)
    if sorted(head) != sorted(S.labels):
        return
    for r in rows[1:]:
        for b2, cell in zip(head, r[1:]):
            if r[0] in S.labels:
                _cmp(V, "write_csv|cell", float(cell), S.ref[(r[0], b2)][0], "%s,%s on %s" % (r[0], b2, S.text))


def q_nj(pdm, S, V):
    if not S.binary:
        return
    want, _ = ref.split_lengths(S.sn, False)
    for order in pool_orders(S.labels, "basic"):
        if not force_order(V, pdm, order, "reuse"):
            return
        judge_nj(V, pdm.nj_tree(), "reuse", S.labels, want, S.text)


def q_upgma(pdm, S, V):
    if not (S.binary and S.ultrametric):
        return
    hs = heights_of(S.sn)
    want = dict((cl, (0 if not isinstance(h, list) else h[0])) for cl, h in hs.items())
    for order in pool_orders(S.labels, "basic"):
        if not force_order(V, pdm, order, "reuse"):
            return
        judge_upgma(V, pdm.upgma_tree(), "reuse", S.labels, want, True, S.text)


# name -> (family, needs path steps / tree size?, function)
REUSE_QUERIES = [
    ("patristic_distance", "pairwise", False, q_patristic),
    ("path_edge_count", "pairwise", True, q_steps),
    ("mrca", "pairwise", True, q_mrca),
    ("distances", "list", False, _q_distances(True, False)),
    ("distances|unweighted", "list", True, _q_distances(False, False)),
    ("distances|normalized", "list", True, _q_distances(True, True)),
    ("mean_pairwise_distance", "summary", False, _q_summary("mean_pairwise_distance", True, False, None)),
    ("mean_pairwise_distance|filter", "summary", False, _q_summary("mean_pairwise_distance", True, False, "first-two")),
    ("mean_pairwise_distance|normalized", "summary", True, _q_summary("mean_pairwise_distance", True, True, None)),
    ("mean_pairwise_distance|unweighted", "summary", True, _q_summary("mean_pairwise_distance", False, False, None)),
    ("mean_nearest_taxon_distance", "summary", False, _q_summary("mean_nearest_taxon_distance", True, False, None)),
    ("mean_nearest_taxon_distance|filter", "summary", False, _q_summary("mean_nearest_taxon_distance", True, False, "all-but-first")),
    ("mean_nearest_taxon_distance|normalized", "summary", True, _q_summary("mean_nearest_taxon_distance", True, True, None)),
    ("mean_nearest_taxon_distance|unweighted", "summary", True, _q_summary("mean_nearest_taxon_distance", False, False, None)),
    ("taxon-iterators", "iter", False, q_iters),
    ("as_data_table", "table", False, q_table),
    # write_csv reads the diagonal cells, which a matrix compiled from a table does not have (KeyError on the
    # unchanged library even without any re-use: from_csv(...).write_csv(...)); judged on tree-compiled matrices only
    ("write_csv", "table", True, q_csv),
    ("nj_tree", "tree-building", False, q_nj),
    ("upgma_tree", "tree-building", False, q_upgma),
]
REUSE_Q = dict((q[0], q) for q in REUSE_QUERIES)


def reuse_queries_for(route):
    return [q[0] for q in REUSE_QUERIES if route == "tree" or not q[2]]


def _reuse_sources(case):
    """fresh namespaces and trees for the steps of one history"""
    steps = case["steps"]          # [[menu index, route], ...]
    shared = build.make_namespace(REUSE_ALL_LABELS, "exact")[0] if case["ns"] == "same" else None
    out = []
    for i, (idx, route) in enumerate(steps):
        if i and list(steps[i - 1]) == [idx, route]:
            out.append(out[-1])         # no re-compile: the very same source
            continue
        ns = shared if shared is not None else build.make_namespace(REUSE_MENU[idx][2], "exact")[0]
        out.append(Src(idx, ns, route))
    return out


def check_reuse(case, ctx, srcs=None):
    """case: steps [[menu idx, route], ...] (consecutive equal steps = no re-compile: the same matrix queried
    again), queries [q per step], ns same|different, first: from_tree|constructor"""
    V0 = Viol(ctx, case)
    if srcs is None:
        srcs = _reuse_sources(case)
    pdm = None
    prev = None
    trail = []
    nq = 0
    for si, (S, qname) in enumerate(zip(srcs, case["queries"])):
        step = case["steps"][si]
        if si == 0:
            if S.route == "tree" and case.get("first", "from_tree") == "from_tree":
                pdm = S.tree.phylogenetic_distance_matrix()
                how = "from_tree"
            else:
                pdm = PhylogeneticDistanceMatrix()
                S.compile_into(pdm)
                how = "compile_from_" + S.route
        elif step == prev:
            how = "same"
        else:
            how = "compile_from_" + S.route
            try:
                S.compile_into(pdm)
            except Exception as e:
                V0("pdm-reuse|%s|re-compile|exception|%s" % ("->".join(trail + [how]), type(e).__name__),
                   "re-compiling the matrix for %s raised %r" % (S.text, e))
                return nq
        trail.append(how)
        prev = step
        fam, _, fn = REUSE_Q[qname][1:]
        if si == 0:
            prefix = "pdm-reuse|%s|first|" % how
        else:
            prefix = "pdm-reuse|%s|after-%s|" % ("->".join(trail[-2:]), REUSE_Q[case["queries"][si - 1]][1])
        hist = "; ".join("%s[%s] then %s" % (t, s2.name, q2) for t, s2, q2 in zip(trail, srcs, case["queries"]))

        def V(sig, msg, _p=prefix, _h=hist):
            V0(_p + sig, "%s  {history: %s}" % (msg, _h))
        nq += 1
        try:
            fn(pdm, S, V)
        except Exception as e:
            V("%s|exception|%s" % (qname, type(e).__name__), "%s raised %r on the matrix of %s" % (qname, e, S.text))
    return nq


def reuse_chunks(tier):
    out = []
    m = len(REUSE_MENU)
    for a in range(m):
        for b2 in range(m):
            out.append({"kind": "reuse", "a": a, "b": b2, "n": 0, "tier": tier})
    out.append({"kind": "reuse3", "n": 0, "tier": tier})
    return out


REUSE_REP = ["patristic_distance", "distances", "mean_pairwise_distance", "mean_nearest_taxon_distance",
             "mean_nearest_taxon_distance|filter", "taxon-iterators", "as_data_table", "nj_tree"]


def run_reuse(chunk, ctx):
    cache = {}

    def go(case):
        key = (case["ns"], tuple(map(tuple, case["steps"])))
        if key not in cache:            # sources are only read by the matrix; replay() builds them afresh
            cache[key] = _reuse_sources(case)
        q = check_reuse(case, ctx, cache[key])
        ctx.case(("reuse", key, tuple(case["queries"]), case.get("first")), True, n=q)
        ctx.count("reuse_histories")
        ctx.count("reuse_queries", q)
    if chunk["kind"] == "reuse3":
        qs = ["mean_nearest_taxon_distance", "mean_pairwise_distance", "taxon-iterators", "nj_tree"]
        for tri in REUSE_TRIPLES:
            for nsmode in ("same", "different"):
                for routes in (("tree", "tree", "tree"), ("tree", "dict", "tree"), ("dict", "tree", "dict")):
                    for q1 in qs:
                        for q3 in qs:
                            for q2 in (q1, q3):
                                go({"kind": "reuse", "steps": [[i, r] for i, r in zip(tri, routes)], "queries": [q1, q2, q3], "ns": nsmode, "first": "constructor"})
        ctx.sample({"layer": "matrix object re-use", "history": "query on A; compile_from_tree(B); query; compile_from_dict(C); query", "triples": len(REUSE_TRIPLES)}, 1)
        return None
    a, b2 = chunk["a"], chunk["b"]
    summaries = [q[0] for q in REUSE_QUERIES if q[1] == "summary"]
    if a == b2:
        # the same matrix queried twice (different options / different queries), no re-compile
        for r in ("tree", "dict"):
            qs = reuse_queries_for(r)
            for q1 in qs:
                for q2 in qs:
                    go({"kind": "reuse", "steps": [[a, r], [a, r]], "queries": [q1, q2], "ns": "same", "first": "from_tree"})
        return None
    for r2 in ("tree", "dict"):
        q2s = reuse_queries_for(r2)
        for q2 in q2s:
            # same namespace: every first query, both kinds of first matrix
            for q1 in reuse_queries_for("tree"):
                go({"kind": "reuse", "steps": [[a, "tree"], [b2, r2]], "queries": [q1, q2], "ns": "same", "first": "from_tree"})
            for q1 in reuse_queries_for("dict"):
                go({"kind": "reuse", "steps": [[a, "dict"], [b2, r2]], "queries": [q1, q2], "ns": "same", "first": "constructor"})
            # different namespaces: one first query per family (+ both nearest-taxon forms)
            for q1 in REUSE_REP:
                go({"kind": "reuse", "steps": [[a, "tree"], [b2, r2]], "queries": [q1, q2], "ns": "different", "first": "from_tree"})
            # first matrix made by the bare constructor + compile_from_tree: the summaries
            if q2 in summaries:
                for q1 in summaries:
                    go({"kind": "reuse", "steps": [[a, "tree"], [b2, r2]], "queries": [q1, q2], "ns": "same", "first": "constructor"})
    ctx.sample({"layer": "matrix object re-use", "history": "query on %s; re-compile the same object for %s; query" % (REUSE_MENU[a][0], REUSE_MENU[b2][0]),
                "queries": [q[0] for q in REUSE_QUERIES]}, 1)
    return None


BIG_PARTS = ("pdm", "ndm", "mrca", "algo")


def big_chunks(tier):
    out = []
    for name in BIG_NAMES:
        for part in BIG_PARTS:
            if part == "algo" and name not in BIG_ALGO:
                continue
            out.append({"kind": "big", "name": name, "part": part, "n": len(U.shape_leaves(big_shape(name))), "tier": tier})
    return out


def run_big(chunk, ctx):
    name, part, n = chunk["name"], chunk["part"], chunk["n"]
    base = {"n": n, "shape": name, "tl": True}

    def done(kind, key, q):
        ctx.case(("big", name, kind) + key, True, n=q)
        ctx.count("big_tree_cases")
        ctx.count("big_queries", q)
    if part == "pdm":
        q = check_pdm(dict(base, kind="pdm", lens="cyc123", ptag="cyc123", rooted=True, filters="family"), ctx)
        done("pdm", ("cyc123",), q)
        q = check_pdm(dict(base, kind="pdm", lens="partial", ptag="partial", rooted=False), ctx)
        done("pdm", ("partial",), q)
        if n <= 40:
            q = check_pdm(dict(base, kind="pdm", lens="cyc123", ptag="cyc123", rooted=True, store=True), ctx)
            done("pdm", ("store",), q)
        for lens, rooted in (("cyc123", True), ("partial", False), ("partial", None)):
            q = check_tm(dict(base, kind="tm", lens=lens, ptag=lens, rooted=rooted, pairs="family"), ctx)
            done("tm", (lens, rooted), q)
        q = check_csvmat(dict(base, kind="csvmat", lens="cyc123", rooted=True, route=0), ctx)
        done("csvmat", (), q)
        ctx.count("csv_round_trips")
    elif part == "ndm":
        q = check_ndm(dict(base, kind="ndm", lens="cyc123", ptag="cyc123", rooted=True), ctx)
        done("ndm", (), q)
    elif part == "mrca":
        for rooted, cfgs in ((True, ("exact", "reversed", "extra_low")), (False, ("exact",))):
            for cfg in cfgs:
                for state in ("current", "refresh", "stale"):
                    if state == "stale" and cfg == "extra_low":
                        continue
                    q = check_mrca(dict(base, kind="mrca", lens="unit", rooted=rooted, ns=cfg, state=state, subsets="family", all_routes=True), ctx)
                    done("mrca", (rooted, cfg, state), q)
    elif part == "algo":
        q = check_nj(dict(base, kind="nj", lens="cyc12", rooted=False, unweighted=True, csv=[0], ltag="cyc12", orders="basic"), ctx)
        done("nj", (), q)
        for ranks in ("postorder", "levels"):
            for hpat in ("int", "quarter"):
                q = check_upgma(dict(base, kind="upgma", ranks=ranks, hpat=hpat, csv=[0] if hpat == "int" else [], orders="basic"), ctx)
                done("upgma", (ranks, hpat), q)
        # textbook definition on non-ultrametric input (cluster-size weighting shows only there)
        q = check_upgma_def(dict(base, kind="upgmadef", lens="distinct", rooted=True), ctx)
        done("upgmadef", (), q)
    ctx.sample({"layer": "large representatives", "tree": name, "tips": n, "part": part}, 1)
    return None


def run_chunk(chunk, ctx):
    if chunk["kind"] == "big":
        return run_big(chunk, ctx)
    if chunk["kind"] in ("reuse", "reuse3"):
        return run_reuse(chunk, ctx)
    if chunk["kind"] == "stale":
        return run_stale(chunk, ctx)
    return {"dist": run_dist, "mrca": run_mrca, "nj": run_nj, "upgma": run_upgma, "upgmadef": run_upgmadef}[chunk["kind"]](chunk, ctx)


def run_dist(chunk, ctx):
    n, tier = chunk["n"], chunk["tier"]
    b = bounds(tier)
    shapes = U.shapes(n)
    nt = n >= 3
    for si in range(chunk["lo"], chunk["hi"]):
        shape = shapes[si]
        for tag, d in drawings(shape, n, b):
            k = nnodes(d)
            for ptag, lens in patterns(k, n, b, tag):
                named = not ptag.startswith("x")
                rootings = (True, False) if (tag == "base" and named) else (True,)
                for rooted in rootings:
                    case = {"kind": "pdm", "n": n, "shape": d, "lens": lens, "ptag": ptag if named else "x", "rooted": rooted,
                            "filters": tag == "base" and n <= b["subset_filters_up_to"] and named}
                    q = check_pdm(case, ctx)
                    ctx.case(("pdm", d, tuple(lens), rooted), nt, n=q)
                    ctx.count("pdm_trees")
                    ctx.count("pdm_queries", q)
                if named and ptag in ("cyc123", "partial"):
                    case = {"kind": "pdm", "n": n, "shape": d, "lens": lens, "ptag": ptag, "rooted": True, "store": True}
                    q = check_pdm(case, ctx)
                    ctx.case(("pdm-store", d, tuple(lens)), nt, n=q)
                    ctx.count("pdm_trees_with_path_edges")
                    ctx.count("pdm_queries", q)
                # node distance matrix
                if named or n <= 3:
                    case = {"kind": "ndm", "n": n, "shape": d, "lens": lens, "ptag": ptag if named else "x", "rooted": True}
                    q = check_ndm(case, ctx)
                    ctx.case(("ndm", d, tuple(lens)), nt, n=q)
                    ctx.count("ndm_trees")
                    ctx.count("ndm_queries", q)
                # treemeasure.patristic_distance
                if ptag in ("none", "cyc123", "partial", NONDYADIC) or (not named and n <= 3):
                    if tag == "order" and n >= 5:
                        continue
                    for rooted in ((True, False, None) if tag == "base" or n <= 4 else ((True, False) if tag == "unif" else (True,))):
                        case = {"kind": "tm", "n": n, "shape": d, "lens": lens, "ptag": ptag if named else "x", "rooted": rooted}
                        q = check_tm(case, ctx)
                        ctx.case(("tm", d, tuple(lens), rooted), nt, n=q)
                        ctx.count("treemeasure_trees")
                        ctx.count("treemeasure_queries", q)
            ctx.count("drawings")
        if n >= 3:
            ctx.sample({"layer": "distances", "tree": ref.to_newick(ref.mk(shape, lens=[[1, 2, 3][i % 3] for i in range(nnodes(shape))])),
                        "pairs": n * n, "drawings": len(drawings(shape, n, b))}, 1)
    return None


def run_mrca(chunk, ctx):
    n, tier = chunk["n"], chunk["tier"]
    b = bounds(tier)
    shapes = U.shapes(n)
    nt = n >= 3
    for si in range(chunk["lo"], chunk["hi"]):
        shape = shapes[si]
        for tag, d in drawings(shape, n, b):
            lens = [1] * nnodes(d)
            for rooted in (True, False, None):
                if rooted is None and (tag == "order" or (tag == "unif" and n >= 5)):
                    continue
                if rooted is False and tag == "order" and n >= 5:
                    continue
                cfgs = b["mrca_ns_configs"] if tag == "base" or (tag == "unif" and n <= 4 and rooted) else ["exact"]
                for cfg in cfgs:
                    states = ["current", "refresh"]
                    if n >= 2 and cfg in ("exact", "removed_low") and (rooted or tag == "base" or n <= 4):
                        states.append("stale")
                    if tag == "unif" and cfg == "exact":
                        states.append("current_suppressed")
                    for state in states:
                        case = {"kind": "mrca", "n": n, "shape": d, "lens": lens, "rooted": rooted, "ns": cfg, "state": state}
                        q = check_mrca(case, ctx)
                        ctx.case(("mrca", d, rooted, cfg, state), nt, n=q)
                        ctx.count("mrca_trees")
                        ctx.count("mrca_queries", q)
            if n <= b["mrca_start_node_up_to"] and tag in ("base", "unif"):
                case = {"kind": "mrca_start", "n": n, "shape": d, "lens": lens, "rooted": True, "ns": "exact", "state": "current"}
                q = check_mrca_start(case, ctx)
                ctx.case(("mrca_start", d), nt, n=q)
                ctx.count("mrca_start_node_trees")
                ctx.count("mrca_queries", q)
        if n >= 4:
            ctx.sample({"layer": "Tree.mrca", "tree": ref.to_newick(ref.mk(shape), False), "subsets": 2 ** n - 1, "routes": list(ROUTES)}, 1)
    return None


def nj_lengths(shape, n, b):
    """[(tag, lens, unweighted?, csv routes, node-pool orders)]"""
    k = nnodes(shape)
    out = []
    leaf_idx = []
    i = [0]

    def rec(s):
        me = i[0]
        i[0] += 1
        if isinstance(s, int):
            leaf_idx.append(me)
        else:
            for c in s:
                rec(c)
    rec(shape)
    internal = [j for j in range(1, k) if j not in leaf_idx]

    def assign(pa, ia):
        lens = [None] * k
        for j, v in zip(leaf_idx, pa):
            lens[j] = v
        for j, v in zip(internal, ia):
            lens[j] = v
        return lens
    if n <= b["nj_all_12_lengths_up_to"]:
        # every assignment from {1,2}
        for i2, a in enumerate(itertools.product((1, 2), repeat=k - 1)):
            lens = [None] + list(a)
            csv = []
            if i2 == 0 or i2 == 2 ** (k - 1) - 1:
                csv = list(range(len(CSV_ROUTES)))
            elif n <= 4 or i2 % 16 == 5:
                csv = [0]
            out.append(("x12", lens, i2 == 0, csv, "all" if n <= 4 else ("rot" if i2 % 8 == 3 else "basic")))
        # long pendant edges next to short ones (what a wrong Q criterion trips over): pendant {1,8} x internal {1,2}
        for i2, pa in enumerate(itertools.product((1, 8), repeat=len(leaf_idx))):
            if 8 not in pa:
                continue
            for ia in itertools.product((1, 2), repeat=len(internal)):
                out.append(("x18", assign(pa, ia), False, [0] if i2 % 8 == 5 else [], "all" if n <= 4 else "basic"))
    else:
        out.append(("unit", [None] + [1] * (k - 1), True, [0], "rot"))
        out.append(("cyc123", [None] + [[1, 2, 3][j % 3] for j in range(1, k)], False, [0, 2], "rot"))
        out.append(("quarters", [None] + [1 + (j % 4) / 4.0 for j in range(1, k)], False, [], "basic"))
        for ph in (0, 1):
            out.append(("long-short-%d" % ph, assign([8 if (x + ph) % 2 else 1 for x in range(len(leaf_idx))], [1] * len(internal)), False, [], "basic"))
        out.append(("long-short-3", assign([1 if x % 3 == 2 else 8 for x in range(len(leaf_idx))], [1] * len(internal)), False, [], "basic"))
    # zero-length and missing pendant edges (internal lengths stay positive): distances of exactly 0.0
    if n <= b["nj_zero_pendant_up_to"]:
        for pi, pa in enumerate(itertools.product((0, 1), repeat=len(leaf_idx))):
            if 0 not in pa:
                continue
            for ii, ia in enumerate(itertools.product((1, 2), repeat=len(internal))):
                orders = "all" if n <= 4 else ("rot" if (pi + ii) % 8 == 3 else "basic")
                out.append(("zero-pendant", assign(pa, ia), False, [0] if (ii == 0 and pi % 4 == 2) else [], orders))
                if ii == 0:
                    out.append(("missing-pendant", assign([None if v == 0 else v for v in pa], ia), False, [], orders))
                if ii == 1 or not internal:
                    out.append(("zero-float-pendant", assign([0.0 if v == 0 else v for v in pa], ia), False, [], orders))
    return out


def run_nj(chunk, ctx):
    n, tier = chunk["n"], chunk["tier"]
    b = bounds(tier)
    shapes = U.shapes(n, True)
    for si in range(chunk["lo"], chunk["hi"]):
        shape = shapes[si]
        for tag, lens, unweighted, csv, orders in nj_lengths(shape, n, b):
            case = {"kind": "nj", "n": n, "shape": shape, "lens": lens, "rooted": False, "unweighted": unweighted, "csv": csv,
                    "ltag": tag, "orders": orders}
            q = check_nj(case, ctx)
            ctx.case(("nj", shape, tuple(lens)), n >= 3, n=q)
            ctx.count("nj_generating_trees")
            ctx.count("nj_runs", len(pool_orders(U.LABELS[:n], orders)) * (2 if unweighted else 1) + 2 * len(csv))
            ctx.count("csv_round_trips", len(csv))
        ctx.sample({"layer": "NJ", "generating_tree": ref.to_newick(ref.mk(shape, lens=[None] + [[1, 2][i % 2] for i in range(nnodes(shape) - 1)])),
                    "length_assignments": len(nj_lengths(shape, n, b))}, 1)
    return None


HPATS = ("int", "pow2", "quarter", NONDYADIC)


def run_upgma(chunk, ctx):
    n = chunk["n"]
    shapes = U.shapes(n, True)
    for si in range(chunk["lo"], chunk["hi"]):
        shape = shapes[si]
        rks = rankings(shape)
        for ri, ranks in enumerate(rks):
            for hpat in HPATS:
                if hpat == "int":
                    csv = list(range(len(CSV_ROUTES))) if (ri == 0 or n <= 4) else [0]
                elif hpat == "quarter":
                    csv = [0]
                else:
                    csv = []
                orders = "all" if n <= 4 else ("rot" if hpat == "int" and n <= 5 else "basic")
                case = {"kind": "upgma", "n": n, "shape": shape, "ranks": ranks, "hpat": hpat, "csv": csv, "orders": orders}
                q = check_upgma(case, ctx)
                ctx.case(("upgma", shape, tuple(ranks), hpat), n >= 3, n=q)
                ctx.count("upgma_ranked_trees")
                ctx.count("upgma_runs", len(pool_orders(U.LABELS[:n], orders)) + 2 * len(csv))
                ctx.count("csv_round_trips", len(csv))
            # exactly one cherry at height zero (patristic distance exactly 0.0, a unique minimum): the rank-1
            # node of every ranking = every choice of the cherry x every ranking of the other nodes
            b = bounds(chunk["tier"])
            for zero, hpat in (("0", "int"), ("0.0", "pow2"), ("None", "quarter"), ("None", "int")):
                if n > b["upgma_zero_cherry_all_orders_up_to"] and hpat != "int":
                    continue
                orders = "all" if n <= b["upgma_zero_cherry_all_orders_up_to"] else "pair"
                csv = [0] if (zero == "0" and (ri == 0 or n <= 4)) else []
                case = {"kind": "upgma", "n": n, "shape": shape, "ranks": ranks, "hpat": hpat, "csv": csv, "orders": orders, "zero": zero}
                q = check_upgma(case, ctx)
                ctx.case(("upgma0", shape, tuple(ranks), hpat, zero), n >= 3, n=q)
                ctx.count("upgma_zero_cherry_trees")
                ctx.count("upgma_runs", q - 1)
                ctx.count("csv_round_trips", len(csv))
        ctx.sample({"layer": "UPGMA", "generating_tree": ref.to_newick(ultrametric_snapshot(shape, rks[0], "int")), "rankings": len(rks)}, 1)
    return None


def run_upgmadef(chunk, ctx):
    n = chunk["n"]
    shapes = U.shapes(n, True)
    for si in range(chunk["lo"], chunk["hi"]):
        shape = shapes[si]
        k = nnodes(shape)
        alpha = (1, 2, 3) if n <= 4 else (1, 3)
        todo = list(itertools.product(alpha, repeat=k - 1))
        # zero lengths (distances of exactly 0.0); inputs in which the exact reference meets a tie are skipped as always
        todo += [a for a in itertools.product((0, 1, 3) if n <= 4 else (0, 2), repeat=k - 1) if 0 in a]
        for a in todo:
            lens = [None] + list(a)
            case = {"kind": "upgmadef", "n": n, "shape": shape, "lens": lens, "rooted": True}
            q = check_upgma_def(case, ctx)
            if q:
                ctx.case(("upgmadef", shape, tuple(lens)), True, n=q)
                ctx.count("upgma_definition_trees_tie_free")
            else:
                ctx.count("upgma_definition_trees_skipped_for_ties")
    return None


# ---------------------------------------------------------------------------

def replay(case, ctx):
    k = case.get("kind")
    fn = {"pdm": check_pdm, "tm": check_tm, "ndm": check_ndm, "mrca": check_mrca, "mrca_start": check_mrca_start,
          "nj": check_nj, "upgma": check_upgma, "upgmadef": check_upgma_def, "csvmat": check_csvmat, "reuse": check_reuse, "stale": check_stale}.get(k)
    if fn is None:
        raise ValueError("unknown case kind %r" % k)
    fn(case, ctx)
