"""C13 - all ways of reading the same source deliver the same data (DESIGN 3/C13).

Engine E1: exhaustive enumeration of hand-built Newick / NEXUS / NeXML documents
(mc/readdocs.py) x reader option sets; every document/option pair is pushed through
every read route and the routes are compared pairwise on deep snapshots.
"""
import io
import itertools
import os
import shutil
import tempfile

import dendropy

from mc import budget
from mc import readdocs as D
from mc import universe as U

ID = "C13"
LEVEL = "exploration"
EXHAUSTIVE = True
RULE = ("a case = one (document text, schema, reader option set) pushed through one read route or one "
        "(collection_offset, tree_offset) / matrix_offset / source-kind variant of it and compared with the reference "
        "route on deep snapshots (tree label, rooting, weight, comments, annotations, per node: taxon label, node "
        "label, edge length and its type, edge label, comments, annotations, child order) plus identity of Taxon "
        "objects when a namespace is shared; documents are enumerated as full products of block layout x TAXA-block "
        "configuration x TRANSLATE mode x rooting-token pattern x weight/comment decorations x line-end style x "
        "character-block presence, and every tree drawing of U(n<=4) (orders, unifurcations) once per schema; "
        "non-trivial = document with >= 2 trees or >= 3 leaves, or any matrix document")
ASSUMPTIONS = [
    "documents are rendered by mc/readdocs.py (plain string code), never by a dendropy writer",
    "the reference is the first route that succeeds among DataSet.get(data=), TreeList.get(data=), Tree.yield_from_files([StringIO]); "
    "every other route is compared with it, so a defect shared by all routes (the common tree-statement parser) is invisible here (it is C02's subject)",
    "the text given as data= is the text a text-mode open() of the scratch file returns (files are written with newline='' and "
    "contain no line break inside a comment or quoted token, so universal-newline translation cannot change a token)",
    "per-tree weights, sum of weights, weighted split counts and split frequencies held by a TreeArray are compared with values computed by the "
    "harness from the weights of the trees TreeList.get delivers for the same text (weight None = 1.0; frequencies only when the weights do not all vanish)",
    "TreeArray content is compared with a TreeArray filled by add_trees() from the reference trees (add_tree is not a read route); "
    "split bitmasks are translated to label sets through the position of the taxon in its freshly created namespace",
    "offset semantics are those of the docstrings: Tree.get(collection_offset=i, tree_offset=j) is tree j of collection i; "
    "TreeList.get/read and TreeArray.read(collection_offset=i, tree_offset=j) deliver trees j.. of collection i",
    "when every route raises, nothing is demanded; a route that raises while the reference route succeeds is a disagreement",
    "annotation order inside one annotation set is not compared (metadata comments are parsed into a set of id-hashed objects)",
]
MANIFEST = {
    "engine": "E1-ENUM",
    "technique": "exhaustive small-scope enumeration of documents x options x read routes with pairwise differential comparison",
    "text": "Every Newick/NEXUS/NeXML document of the stated finite grammar (1-3 collections x 1-3 trees, 0-2 TAXA blocks, "
            "TRANSLATE modes, rooting/weight/comment/metadata decorations, line-end styles, with and without character blocks, "
            "all tree drawings with <= 4 leaves) and every NEXUS/FASTA/PHYLIP/NeXML character document of the stated grammar is "
            "read through every public route (TreeList.get, Tree.get at all offsets, TreeList.read fresh and into a shared "
            "namespace, Tree.yield_from_files with one and two sources, TreeArray.read/read_from_files, DataSet.get/read, "
            "CharacterMatrix.get at all matrix offsets; data=/file=/path=) under every listed reader option set, and all "
            "routes are shown to deliver equal deep snapshots and, with a shared namespace, the identical Taxon objects.",
    "note": "trusted: the document renderer, the snapshot function (reads primitive fields), TreeArray.add_tree as the carrier of the expected TreeArray content",
}

# ---------------------------------------------------------------------------
# option sets (JSON-able; '__ns' = the harness passes an explicit namespace to every route)

TREE_OPTS_NEWICKLIKE = [
    {},
    {"rooting": "default-rooted"},
    {"rooting": "default-unrooted"},
    {"rooting": "force-rooted"},
    {"rooting": "force-unrooted"},
    {"store_tree_weights": True},
    {"extract_comment_metadata": False},
    {"store_tree_weights": True, "extract_comment_metadata": False, "rooting": "default-rooted"},
    {"suppress_edge_lengths": True},
    {"preserve_underscores": True},
    {"suppress_internal_node_taxa": False},
    {"suppress_leaf_node_taxa": True},
    {"edge_length_type": "int"},
    {"terminating_semicolon_required": False},
    {"case_sensitive_taxon_labels": True},
    {"case_sensitive_taxon_labels": True, "__ns": "cs"},
    {"__ns": "plain"},
    {"store_tree_weights": True, "__ns": "plain", "suppress_internal_node_taxa": False, "preserve_underscores": True},
]
TREE_OPTS_SMALL = [
    {},
    {"store_tree_weights": True, "extract_comment_metadata": False, "rooting": "default-rooted"},
    {"suppress_internal_node_taxa": False, "preserve_underscores": True, "__ns": "plain", "rooting": "force-unrooted"},
    {"case_sensitive_taxon_labels": True},
]
NEXML_OPTS = [
    {},
    {"__ns": "plain"},
    {"case_sensitive_taxon_labels": True},
    {"case_sensitive_taxon_labels": True, "__ns": "cs"},
]
CHAR_OPTS = [
    {},
    {"preserve_underscores": True},
    {"__ns": "plain"},
]


LABEL_OPTS_NEWICK = [
    {},
    {"__ns": "plain"},
    {"__ns": "pre"},
    {"__ns": "pre2"},
    {"case_sensitive_taxon_labels": True, "__ns": "cs"},
    {"case_sensitive_taxon_labels": True, "__ns": "cs-pre"},
]
LABEL_OPTS_OTHER = [{}, {"__ns": "pre"}, {"case_sensitive_taxon_labels": True, "__ns": "cs"}]
PRE_NAMESPACES = {"pre": ["p", "q", "r"], "pre2": ["p", "3", "q"], "cs-pre": ["p", "q", "r"]}


def cases_labels(tier):
    """label vocabulary: integers colliding with taxon positions, beyond the namespace, zero-padded,
    quoted, equal up to case; in the first and in a later statement; fresh, plain, pre-populated and
    case-sensitive namespaces (the namespace of the first read is re-used by the shared-namespace routes)"""
    q = tier == "quick"
    out = []
    firsts = D.vocab_first_variants((0, 3) if q else (0, 1, 2, 3))
    laters = D.vocab_later_variants(True)
    for f in firsts:
        for l in laters:
            for o in LABEL_OPTS_NEWICK:
                out.append({"kind": "trees", "schema": "newick", "opts": o, "p": dict(vocab=True, first=f, later=l)})
            if not q and f == firsts[0]:
                for third in (["9", "a", "b", "01"], ["3", "2", "1", "x"]):
                    for o in LABEL_OPTS_NEWICK:
                        out.append({"kind": "trees", "schema": "newick", "opts": o, "p": dict(vocab=True, first=f, later=l, third=third)})
    # empty labels: NeXML otu label="" / otu without label attribute; Newick and NEXUS quoted empty label
    for name, order, shape in D.NEXML_EMPTY_LABEL_SETS:
        for two in (False, True):
            for o in ({}, {"__ns": "plain"}, {"case_sensitive_taxon_labels": True, "__ns": "cs"}):
                out.append({"kind": "trees", "schema": "nexml", "opts": o, "p": dict(empty=name, two=two)})
    for schema in ("newick", "nexus"):
        for two in (False, True):
            for o in ({}, {"__ns": "plain"}, {"__ns": "pre"}, {"case_sensitive_taxon_labels": True, "__ns": "cs"}):
                out.append({"kind": "trees", "schema": schema, "opts": o, "p": dict(empty="quoted-empty", two=two)})
    firsts2 = D.vocab_first_variants((3,) if q else (0, 3))
    laters2 = D.vocab_later_variants(not q)
    for f in firsts2:
        for l in laters2:
            for taxa in ("none", "one"):
                for layout in ([2], [1, 1]):
                    for o in (LABEL_OPTS_OTHER[:2] if q else LABEL_OPTS_OTHER):
                        out.append({"kind": "trees", "schema": "nexus", "opts": o, "p": dict(vocab=True, first=f, later=l, taxa=taxa, layout=layout)})
            labs = [D._unq(t) for t in f + l]
            case_clash = len(set(x.lower() for x in labs)) != len(set(labs))
            for layout in ([2], [1, 1]) if not q else ([2],):
                for o in LABEL_OPTS_OTHER:
                    if case_clash and not o.get("case_sensitive_taxon_labels"):
                        continue      # two distinct OTUs whose labels are equal up to case: outside the domain of a case-insensitive read
                    out.append({"kind": "trees", "schema": "nexml", "opts": o, "p": dict(vocab=True, first=f, later=l, layout=layout)})
    return out


ZERO_OPTS = [
    {"store_tree_weights": True},
    {},                                                       # control: weight comments are not read
    {"store_tree_weights": True, "rooting": "force-rooted", "__ns": "plain"},
]


def cases_zero_weights(tier):
    """weight comments whose value is zero ([&W 0], [&W 0.0], [&W 0/5]) on the first, a middle, the last
    or every tree; uniform rooting tokens so that the tree-array route accepts the documents"""
    q = tier == "quick"
    out = []
    coms = ("none",) if q else ("none", "both")
    for n in (1, 2, 3):
        for pat in D.ZERO_PATTERNS:
            for zrot in (0, 1, 2):
                for rooting in ("none", "R"):
                    for com in coms:
                        for o in ZERO_OPTS:
                            out.append({"kind": "trees", "schema": "newick", "opts": o,
                                        "p": dict(n_trees=n, rooting=rooting, weights=pat, zrot=zrot, com=com, nl="\n", lens="int", ilab=True, semi="ok")})
    lay = [list(x) for x in (D.LAYOUTS_Q if q else D.layouts(3, 3))]
    for layout in lay:
        for taxa in ("none", "one"):
            for tr in ("none", "perm"):
                for pat in D.ZERO_PATTERNS:
                    for zrot in (0, 1, 2):
                        for rooting in ("none", "R"):
                            for com in coms:
                                for o in (ZERO_OPTS[:2] if q else ZERO_OPTS):
                                    out.append({"kind": "trees", "schema": "nexus", "opts": o,
                                                "p": dict(layout=layout, taxa=taxa, translate=tr, rooting=rooting, weights=pat, zrot=zrot, com=com,
                                                          nl="\n", chars="none", lens="int", ilab=True)})
    return out


_written = {}


def multi_menu(schema):
    """the hand-built menu plus, for NeXML, two documents written by DendroPy itself from tree lists whose
    namespaces are ordered differently (its writer numbers ids d0, d1, ... so the ids coincide while the
    id -> label bindings differ); the writer is only a source of text here, the oracle stays pairwise"""
    menu = list(D.multi_menu(schema))
    if schema == "nexml":
        if not _written:
            for name, order, nw, n in (("written-by-dendropy", ["a", "b", "c", "d"], "((a,b),(c,d));", 1),
                                       ("written-by-dendropy-other-order", ["d", "c", "b", "a"], "((a,c),(b,d));(a,(b,(c,d)));", 2)):
                tl = dendropy.TreeList.get(data=nw, schema="newick", taxon_namespace=dendropy.TaxonNamespace(order))
                _written[name] = (tl.as_string("nexml"), n)
        for name in sorted(_written):
            menu.append((name, _written[name][0], _written[name][1]))
    return menu


MULTI_TRIPLES = [(0, 1, 0), (1, 0, 1), (3, 1, 2), (2, 3, 1)]


def cases_multi(tier):
    """every ordered pair (thorough: also every ordered triple) of menu documents, read as several sources
    into one namespace"""
    out = []
    for schema in ("newick", "nexus", "nexml"):
        n = len(multi_menu(schema))
        seqs = [(i, j) for i in range(n) for j in range(n)]
        if tier == "quick":
            seqs += MULTI_TRIPLES + ([(5, 6, 5), (6, 0, 5)] if n > 6 else [])
        else:
            seqs += [(i, j, k) for i in range(n) for j in range(n) for k in range(n)]
        for seq in seqs:
            for o in ({}, {"store_tree_weights": True, "rooting": "force-unrooted"}) if tier != "quick" else ({},):
                out.append({"kind": "multi", "schema": schema, "opts": o, "p": {"seq": list(seq)}})
    return out


def bounds(tier):
    q = tier == "quick"
    return {
        "max_leaves_structure_layer": 4,
        "nexus_layouts": [list(x) for x in (D.LAYOUTS_Q if q else D.layouts(3, 3))],
        "nexus_taxa": ["none", "one", "two-same", "two-disjoint"],
        "nexus_translate": ["none", "perm", "alpha", "first", "first-num"],
        "rooting_patterns": ["none", "R", "U", "mixed"] + ([] if q else ["mixed2"]),
        "decorations": {"weights": [False, True], "comments": ["none", "plain", "meta", "both"],
                        "line_ends": ["\\n", "\\r\\n", "space"], "chars": ["none", "dna-before", "std-after"]},
        "decoration_layer": "quick: layouts (2),(1,2) x taxa none/one x translate none/perm x rooting mixed x all decorations x lengths int; "
                            "thorough: the seven quick layouts x every taxa x every translate x rooting mixed/none x all decorations x lengths int/partial",
        "newick_statements": [1, 2, 3],
        "nexml": {"layouts": [list(x) for x in (D.LAYOUTS_Q if q else D.layouts(3, 3))], "otus": ["one", "two-same", "two-disjoint"],
                  "rooting": ["rooted", "unrooted", "mixed"], "meta": [False, True], "lens": ["none", "int", "sci"]},
        "tree_option_sets": len(TREE_OPTS_NEWICKLIKE), "nexml_option_sets": len(NEXML_OPTS), "char_option_sets": len(CHAR_OPTS),
        "char_docs": "NEXUS: kind{dna,protein,standard,continuous} x block{data,characters} x interleave x matchchar x multistate x "
                     "one/two matrices x trees{none,before,after} x sets x line end; FASTA, PHYLIP (sequential/interleaved), NeXML DnaSeqs",
        "offsets": "all (collection, tree) pairs, plus -1 for TreeList offsets",
        "label_vocabulary": {"first_statement": D.VOCAB_FIRST, "later_statement": D.VOCAB_LATER,
                             "positions_first": [0, 3] if q else [0, 1, 2, 3],
                             "namespaces": ["own", "plain", "pre-populated p,q,r", "pre-populated p,3,q", "case-sensitive", "case-sensitive pre-populated"],
                             "schemas": "newick (2 statements; thorough also 3), nexus without TRANSLATE (TAXA none/one, layouts (2),(1,1)), nexml"},
        "zero_weight_layer": {"tokens": D.ZERO_WEIGHTS, "placement": list(D.ZERO_PATTERNS), "token_rotations": 3, "rooting": ["none", "R"],
                              "newick_statements": [1, 2, 3], "nexus": "layouts x TAXA none/one x TRANSLATE none/perm",
                              "options": "store_tree_weights True, False (control), True + force-rooted + explicit namespace"},
        "multi_source_layer": {"menus": dict((sch, [m[0] for m in multi_menu(sch)]) for sch in ("newick", "nexus", "nexml")),
                               "sequences": "every ordered pair of menu documents" + (" and six triples" if q else " and every ordered triple"),
                               "routes": ["Tree.yield_from_files (StringIO / paths)", "TreeArray.read_from_files", "TreeArray.read per file", "TreeList.read per file into one list",
                                          "DataSet.read per file with an attached namespace"],
                               "reference": "TreeList.get(taxon_namespace=shared) per file"},
        "layers": list(active_layers()),
    }


# ---------------------------------------------------------------------------
# case lists (deterministic; a chunk is a slice of one list)

def _opt_key(o):
    return tuple(sorted((k, str(v)) for k, v in o.items()))


def cases_nexus_core(tier):
    b = bounds(tier)
    out = []
    for layout in b["nexus_layouts"]:
        for taxa in b["nexus_taxa"]:
            for tr in b["nexus_translate"]:
                if tr == "first-num" and taxa == "none":
                    continue
                for rooting in b["rooting_patterns"]:
                    p = dict(layout=list(layout), taxa=taxa, translate=tr, rooting=rooting, weights=True, com="both",
                             nl="\n", chars="none", lens="int", ilab=True)
                    for o in TREE_OPTS_NEWICKLIKE:
                        out.append({"kind": "trees", "schema": "nexus", "p": p, "opts": o})
    return out


def cases_nexus_deco(tier):
    q = tier == "quick"
    b = bounds(tier)
    out = []
    layouts_ = [[2], [1, 2]] if q else [list(x) for x in D.LAYOUTS_Q]
    taxas = ["none", "one"] if q else b["nexus_taxa"]
    trs = ["none", "perm"] if q else b["nexus_translate"]
    roots = ["mixed"] if q else ["mixed", "none"]
    opts = TREE_OPTS_SMALL
    for layout in layouts_:
        for taxa in taxas:
            for tr in trs:
                if tr == "first-num" and taxa == "none":
                    continue
                for rooting in roots:
                    for weights in (False, True):
                        for com in ("none", "plain", "meta", "both"):
                            for nl in ("\n", "\r\n", " "):
                                for chars in ("none", "dna-before", "std-after"):
                                    if weights and com == "both" and nl == "\n" and chars == "none":
                                        continue      # that slice is the core layer
                                    for lens in (("int",) if q else ("int", "partial")):
                                        p = dict(layout=list(layout), taxa=taxa, translate=tr, rooting=rooting, weights=weights,
                                                 com=com, nl=nl, chars=chars, lens=lens, ilab=True)
                                        for o in opts:
                                            out.append({"kind": "trees", "schema": "nexus", "p": p, "opts": o})
    return out


def cases_newick(tier):
    q = tier == "quick"
    out = []
    for n in (1, 2, 3):
        for rooting in (["none", "R", "U", "mixed"] if q else ["none", "R", "U", "mixed", "mixed2"]):
            for weights in (False, True):
                for com in ("none", "plain", "meta", "both"):
                    for nl in ("\n", "\r\n", " "):
                        for lens in ("none", "int", "sci"):
                            for semi in ("ok", "missing", "double"):
                                p = dict(n_trees=n, rooting=rooting, weights=weights, com=com, nl=nl, lens=lens,
                                         ilab=lens != "none", semi=semi)
                                full = (com == "both" and weights and nl == "\n" and lens == "int" and semi == "ok")
                                opts = TREE_OPTS_NEWICKLIKE if (full or not q) else (TREE_OPTS_SMALL if semi == "ok" else
                                                                                    [{}, {"terminating_semicolon_required": False}])
                                for o in opts:
                                    out.append({"kind": "trees", "schema": "newick", "p": p, "opts": o})
    return out


def drawings(tier):
    """every tree of U(n<=4) in every child order (n<=3) / order variant (n=4), plus every
    single unifurcation insertion"""
    out = []
    for n in (1, 2, 3, 4):
        for s in U.shapes(n):
            vs = list(U.all_orders(s)) if n <= 3 else U.order_variants(s)
            seen = set()
            for v in vs:
                if v not in seen:
                    seen.add(v)
                    out.append(v)
            for u in U.with_unifurcations(s, 1, (1,) if tier == "quick" else (1, 2)):
                out.append(u)
    return out


def _jshape(s):
    return s if isinstance(s, int) else [_jshape(c) for c in s]


def _tshape(s):
    return s if isinstance(s, int) else tuple(_tshape(c) for c in s)


def cases_structure(tier):
    out = []
    for d in drawings(tier):
        js = _jshape(d)
        for lens, ilab in (("none", False), ("int", True), ("sci", True)):
            out.append({"kind": "trees", "schema": "newick", "opts": {},
                        "p": dict(n_trees=2, rooting="mixed", weights=False, com="none", nl="\n", lens=lens, ilab=ilab, semi="ok", shape=js)})
            out.append({"kind": "trees", "schema": "nexus", "opts": {"suppress_internal_node_taxa": False} if ilab else {},
                        "p": dict(layout=[1, 1], taxa="one", translate="perm", rooting="mixed", weights=False, com="none", nl="\n",
                                  chars="none", lens=lens, ilab=ilab, shape=js)})
            out.append({"kind": "trees", "schema": "nexml", "opts": {},
                        "p": dict(layout=[1, 1], otus="one", rooting="mixed", meta=False, lens=lens, ilab=ilab, shape=js)})
    return out


def cases_nexml(tier):
    b = bounds(tier)["nexml"]
    out = []
    for layout in b["layouts"]:
        for otus in b["otus"]:
            for rooting in b["rooting"]:
                for meta in b["meta"]:
                    for lens in b["lens"]:
                        for chars in ("none", "dna"):
                            if chars == "dna" and not (lens == "int" and meta):
                                continue
                            p = dict(layout=list(layout), otus=otus, rooting=rooting, meta=meta, lens=lens, ilab=lens != "none", chars=chars)
                            for o in NEXML_OPTS:
                                out.append({"kind": "trees", "schema": "nexml", "p": p, "opts": o})
    return out


def cases_chars(tier):
    out = []
    for kind in ("dna", "protein", "standard", "continuous"):
        for block in ("data", "characters"):
            for interleave in (False, True):
                for matchchar in (False, True):
                    for multistate in (False, True):
                        if kind == "continuous" and (matchchar or multistate):
                            continue
                        for two in (False, True):
                            for trees in ("none", "before", "after"):
                                for sets in (False, True):
                                    for nl in ("\n", "\r\n"):
                                        p = dict(fmt="nexus", kind=kind, block=block, interleave=interleave, matchchar=matchchar,
                                                 multistate=multistate, two=two, trees=trees, sets=sets, nl=nl)
                                        for o in CHAR_OPTS:
                                            out.append({"kind": "chars", "schema": "nexus", "p": p, "opts": o})
    for kind in ("dna", "protein", "standard"):
        for variant in (0, 1):
            out.append({"kind": "chars", "schema": "fasta", "p": dict(fmt="fasta", kind=kind, variant=variant), "opts": {}})
            for inter in (False, True):
                out.append({"kind": "chars", "schema": "phylip", "p": dict(fmt="phylip", kind=kind, variant=variant, interleaved=inter), "opts": {}})
    for two in (False, True):
        for wt in (False, True):
            for o in ({}, {"__ns": "plain"}):
                out.append({"kind": "chars", "schema": "nexml", "p": dict(fmt="nexml", two=two, with_trees=wt), "opts": o})
    return out


LAYERS = {
    "nexus-core": (cases_nexus_core, 40),
    "nexus-deco": (cases_nexus_deco, 40),
    "newick": (cases_newick, 80),
    "structure": (cases_structure, 60),
    "nexml": (cases_nexml, 40),
    "chars": (cases_chars, 120),
    "labels": (cases_labels, 60),
    "zero-weights": (cases_zero_weights, 40),
    "multi-source": (cases_multi, 12),
}
_case_cache = {}


def layer_cases(layer, tier):
    k = (layer, tier)
    if k not in _case_cache:
        _case_cache[k] = LAYERS[layer][0](tier)
    return _case_cache[k]


def active_layers():
    """development aid: VERIF_C13_LAYERS=a,b restricts a run to some layers (recorded in the
    evidence through bounds()); registered commands never set it"""
    v = os.environ.get("VERIF_C13_LAYERS")
    names = ("nexus-core", "nexus-deco", "newick", "structure", "nexml", "chars", "labels", "zero-weights", "multi-source")
    if v:
        return tuple(x for x in names if x in v.split(","))
    return names


def chunks(tier):
    out = []
    for layer in active_layers():
        n = len(layer_cases(layer, tier))
        step = LAYERS[layer][1] * (1 if tier == "quick" else 4)
        for lo in range(0, n, step):
            out.append({"layer": layer, "lo": lo, "hi": min(n, lo + step), "tier": tier})
    return out


# ---------------------------------------------------------------------------
# rendering a case

def render(case):
    """-> (text, schema, blocks | classes)"""
    if case["kind"] == "multi":
        if "texts" in case:
            return case["texts"], case["schema"], case["counts"]
        menu = multi_menu(case["schema"])
        return [menu[i][1] for i in case["p"]["seq"]], case["schema"], [menu[i][2] for i in case["p"]["seq"]]
    if "text" in case:
        return case["text"], case["schema"], case.get("blocks") if case["kind"] == "trees" else case.get("classes")
    p = dict(case["p"])
    if p.get("shape") is not None:
        p["shape"] = _tshape(p["shape"])
    schema = case["schema"]
    if case["kind"] == "trees" and p.get("empty"):
        if schema == "nexml":
            order, shape = [(o_, s_) for n_, o_, s_ in D.NEXML_EMPTY_LABEL_SETS if n_ == p["empty"]][0]
            t, b = D.nexml_empty_label_doc(order, shape, p["two"])
        else:
            t, b = D.quoted_empty_label_doc(schema, p["two"])
        return t, schema, b
    if case["kind"] == "trees" and p.get("vocab"):
        if schema == "newick":
            t, b = D.vocab_newick_doc(p["first"], p["later"], p.get("third"))
        elif schema == "nexus":
            t, b = D.vocab_nexus_doc(p["first"], p["later"], p["taxa"], tuple(p["layout"]))
        else:
            t, b = D.vocab_nexml_doc(p["first"], p["later"], tuple(p["layout"]))
        return t, schema, b
    if case["kind"] == "trees":
        if schema == "newick":
            t, b = D.newick_doc(p)
        elif schema == "nexus":
            p["layout"] = tuple(p["layout"])
            t, b = D.nexus_doc(p)
        else:
            p["layout"] = tuple(p["layout"])
            t, b = D.nexml_doc(p)
        return t, schema, b
    fmt = p["fmt"]
    if fmt == "nexus":
        t, classes, _ = D.nexus_char_doc(p)
    elif fmt == "fasta":
        t, classes = D.fasta_doc(p["kind"], p["variant"]), [D.CHAR_CLASS[p["kind"]]]
    elif fmt == "phylip":
        t, classes = D.phylip_doc(p["kind"], p["variant"], p["interleaved"]), [D.CHAR_CLASS[p["kind"]]]
    else:
        t, classes = D.nexml_char_doc(p["two"], p["with_trees"])
    return t, schema, classes


def reader_kwargs(opts):
    kw = {}
    for k, v in opts.items():
        if k.startswith("__"):
            continue
        if k == "edge_length_type":
            v = {"int": int, "float": float}[v]
        kw[k] = v
    return kw


# ---------------------------------------------------------------------------
# snapshots (primitive fields only)

def anno_snap(obj):
    s = getattr(obj, "_annotations", None)
    if not s:
        return ()
    return tuple(sorted((_anno(a) for a in s), key=repr))


def _anno(a):
    return (a.name, repr(a.value), a.datatype_hint, a.name_prefix, a.namespace, bool(a.annotate_as_reference), anno_snap(a))


NODE_FIELDS = ["taxon-label", "node-label", "edge-length", "edge-label", "node-comments", "node-annotations",
               "edge-comments", "edge-annotations"]


def node_snap(nd, depth=0):
    if depth > 100:
        raise RuntimeError("snapshot depth > 100")
    e = nd._edge
    L = e.length
    return (nd.taxon._label if nd.taxon is not None else None, nd._label, (type(L).__name__, L), getattr(e, "_label", None),
            tuple(nd.comments), anno_snap(nd), tuple(e.comments), anno_snap(e),
            tuple(node_snap(c, depth + 1) for c in nd._child_nodes))


TREE_FIELDS = ["tree-label", "rooting", "weight", "tree-comments", "tree-annotations", "length-type"]


def tree_snap(t):
    lt = getattr(t, "length_type", None)
    return (t.label, t._is_rooted, t.weight, tuple(t.comments), anno_snap(t), getattr(lt, "__name__", lt), node_snap(t._seed_node))


def taxa_ids(t):
    out = []
    stack = [t._seed_node]
    while stack:
        nd = stack.pop()
        out.append(id(nd.taxon) if nd.taxon is not None else None)
        stack.extend(reversed(nd._child_nodes))
    return out


def diff_node(a, b):
    if len(a[8]) != len(b[8]):
        return "topology"
    for i, f in enumerate(NODE_FIELDS):
        if a[i] != b[i]:
            return f
    for ca, cb in zip(a[8], b[8]):
        d = diff_node(ca, cb)
        if d:
            return d
    return None


def diff_tree(a, b):
    """list of differing fields (tree-level fields all reported, first node-level field)"""
    out = [f for i, f in enumerate(TREE_FIELDS) if a[i] != b[i]]
    d = diff_node(a[6], b[6])
    if d:
        out.append(d)
    return out


def diff_lists(got, want):
    """-> (fields that differ somewhere, {field: description of its first occurrence})"""
    if len(got) != len(want):
        return ["tree-count"], {"tree-count": "%d trees, reference has %d" % (len(got), len(want))}
    fields = []
    detail = {}
    for i, (g, w) in enumerate(zip(got, want)):
        for f in diff_tree(g, w):
            if f not in fields:
                fields.append(f)
                detail[f] = "tree %d: %s" % (i, describe(f, g, w))
    return fields, detail


def describe(f, g, w):
    if f in TREE_FIELDS:
        i = TREE_FIELDS.index(f)
        return "%s %r, reference %r" % (f, g[i], w[i])
    return "%s differs: %s vs reference %s" % (f, flat(g[6]), flat(w[6]))


def flat(n):
    s = ""
    if n[8]:
        s = "(" + ",".join(flat(c) for c in n[8]) + ")"
    s += str(n[0] if n[0] is not None else (n[1] or ""))
    if n[2][1] is not None:
        s += ":%r" % (n[2][1],)
    if n[4] or n[5]:
        s += "[%s%s]" % (";".join(n[4]), ";".join("%s=%s" % (x[0], x[1]) for x in n[5]))
    return s


# ---------------------------------------------------------------------------
# running one route

def raise_site(e):
    tb = e.__traceback__
    name = "?"
    while tb is not None:
        fn = tb.tb_frame.f_code.co_filename
        if "dendropy" in fn:
            name = tb.tb_frame.f_code.co_name
            slf = tb.tb_frame.f_locals.get("self")
            if slf is not None:
                name = "%s.%s" % (type(slf).__name__, name)
        tb = tb.tb_next
    return name


def attempt(fn):
    st = budget.guarded(fn)
    if st[0] == "ok":
        return ("ok", st[1])
    if st[0] == "hang":
        return ("exc", "HANG", str(st[1]), "")
    e = st[1]
    return ("exc", type(e).__name__, raise_site(e), str(e)[:160])


class Env(object):
    """Everything needed to call the routes for one (text, schema, options)."""

    def __init__(self, text, schema, opts, tmp):
        self.text = text
        self.schema = schema
        self.opts = opts
        self.kw = reader_kwargs(opts)
        self.nsmode = opts.get("__ns")
        self.data_type = None
        self.path = os.path.join(tmp, "doc.txt")
        with open(self.path, "w", newline="") as f:
            f.write(text)
        self.path2 = os.path.join(tmp, "doc2.txt")
        shutil.copyfile(self.path, self.path2)

    def DK(self, ns=None, **extra):
        """kwargs for DataSet routes (FASTA / PHYLIP readers need the data type there)"""
        d = self.K(ns, **extra)
        if self.data_type:
            d["data_type"] = self.data_type
        return d

    def newns(self):
        if self.nsmode in PRE_NAMESPACES:
            ns = dendropy.TaxonNamespace(is_case_sensitive=self.nsmode.startswith("cs"))
            for lab in PRE_NAMESPACES[self.nsmode]:
                ns.add_taxon(dendropy.Taxon(label=lab))
            return ns
        if self.nsmode == "cs":
            return dendropy.TaxonNamespace(is_case_sensitive=True)
        if self.nsmode == "plain":
            return dendropy.TaxonNamespace()
        return None

    def K(self, ns=None, **extra):
        d = dict(self.kw)
        d["schema"] = self.schema
        d.update(extra)
        if ns is None:
            ns = self.newns()
        if ns is not None:
            d["taxon_namespace"] = ns
        return d

    def src(self, kind):
        if kind == "data":
            return {"data": self.text}
        if kind == "file":
            return {"file": io.StringIO(self.text)}
        if kind == "path":
            return {"path": self.path}
        raise ValueError(kind)


def block_slices(blocks):
    out = []
    off = 0
    for n in blocks:
        out.append((off, off + n))
        off += n
    return out


class Reporter(object):
    def __init__(self, ctx, case, env, nontrivial):
        self.ctx = ctx
        self.case = case
        self.env = env
        self.nontrivial = nontrivial
        self.base_key = (env.schema, env.text, _opt_key(env.opts))
        self.reported = set()

    def evaluated(self, route, family):
        self.ctx.case(self.base_key + (route,), nontrivial=self.nontrivial)
        self.ctx.count("route_evaluations|" + family)

    def viol(self, family, what, message, route, schema_free=False):
        sig = "%s|%s|%s" % (family, "any-schema" if schema_free else self.env.schema, what)
        field = what.split(":")[-1]
        ft = self.case.get("feat")
        if ft and (field in ("taxon-label", "topology", "node-label")
                   or ("empty-label" in ft and field in ("different-taxon-objects", "namespace-grew"))):
            sig += "|doc:" + ft
        c = dict(self.case)
        c["route"] = route
        self.ctx.violation(sig, "%s: %s  [options %s]" % (route, message, self.env.opts or "{}"), c)

    def exc(self, family, route, oc):
        what = "exception:%s@%s" % (oc[1], oc[2])
        if (family, what) in self.reported:
            self.ctx.count("repeat_observations_of_a_reported_difference")
            return
        self.reported.add((family, what))
        # the raise site names the code; the same site reached from documents of another schema is the same defect
        self.viol(family, what, "raises %s (%s) while the reference route delivers trees/matrices" % (oc[1], oc[3]), route, schema_free=True)

    def compare(self, family, route, oc, want_snaps, conv=None, prefix=""):
        """oc: attempt() outcome whose value converts (conv) to a list of Tree objects.
        A field already reported for this route family in this case is not reported again
        under a sub-route prefix (one defect, one signature)."""
        self.evaluated(route, family)
        if oc[0] != "ok":
            self.exc(family, route, oc)
            return None
        trees = conv(oc[1]) if conv else oc[1]
        got = [tree_snap(t) for t in trees]
        fields, detail = diff_lists(got, want_snaps)
        for f in fields:
            if (family, f) in self.reported:
                self.ctx.count("repeat_observations_of_a_reported_difference")
                continue
            if not prefix:
                self.reported.add((family, f))
            self.viol(family, prefix + f, detail[f], route)
        return trees


# ---------------------------------------------------------------------------
# the tree routes

def ds_trees(ds):
    out = []
    for tl in ds.tree_lists:
        out.extend(tl._trees)
    return out


# DataSet.get keeps every TAXA block in its own namespace, so it is the front end least
# affected by namespace merging; it is the preferred reference
REF_ORDER = ("DataSet", "TreeList", "yield_from_files")


def run_tree_case(case, ctx, tmp):
    text, schema, blocks = render(case)
    opts = case["opts"]
    env = Env(text, schema, opts, tmp)
    ntrees = sum(blocks)
    R = Reporter(ctx, case, env, nontrivial=(ntrees >= 2 or text.count(",") >= 2))
    ctx.count("cases|trees|" + schema)
    T, TL, DS, TA = dendropy.Tree, dendropy.TreeList, dendropy.DataSet, dendropy.TreeArray
    sch = schema

    prim = {}
    prim["TreeList"] = attempt(lambda: TL.get(**env.src("data"), **env.K()))
    prim["yield_from_files"] = attempt(lambda: list(T.yield_from_files([io.StringIO(text)], **env.K())))
    prim["DataSet"] = attempt(lambda: DS.get(**env.src("data"), **env.K()))
    conv = {"TreeList": lambda v: list(v._trees), "yield_from_files": lambda v: v, "DataSet": ds_trees}
    ref_name = None
    for name in REF_ORDER:
        if prim[name][0] == "ok":
            ref_name = name
            break
    if ref_name is None:
        # every primary route raises: nothing is demanded beyond "no other route succeeds silently"
        ctx.count("cases_where_all_primary_routes_raise")
        R.evaluated("all-raise", "agreement-on-failure")
        oc = attempt(lambda: T.get(**env.src("data"), **env.K()))
        if oc[0] == "ok":
            R.viol("Tree.get", "succeeds-where-list-routes-raise", "returns a tree while TreeList.get, yield_from_files and DataSet.get raise %s" % (prim["TreeList"][1],), "Tree.get(data)")
        oc = attempt(lambda: TA(taxon_namespace=env.newns()).read(**env.src("data"), schema=sch, **env.kw))
        if oc[0] == "ok" and oc[1]:
            R.viol("TreeArray", "succeeds-where-list-routes-raise", "reads %r trees while TreeList.get, yield_from_files and DataSet.get raise" % (oc[1],), "TreeArray.read(data)")
        return
    ref_trees = conv[ref_name](prim[ref_name][1])
    want = [tree_snap(t) for t in ref_trees]
    if len(want) != ntrees:
        R.viol("reference:" + ref_name, "tree-count", "reference route delivers %d trees, the document has %d" % (len(want), ntrees), ref_name)
        return
    ctx.count("trees_in_documents", ntrees)
    ctx.maximum("max_document_chars", len(text))
    sl = block_slices(blocks)
    # membership: every taxon on a delivered tree belongs to the tree's namespace
    for t in ref_trees:
        members = set(id(x) for x in t.taxon_namespace._taxa)
        if any(i is not None and i not in members for i in taxa_ids(t)):
            R.viol("reference:" + ref_name, "taxon-not-in-namespace", "a tree references a Taxon that is not in its namespace", ref_name)

    # --- primary routes against the reference
    for name in REF_ORDER:
        if name == ref_name:
            R.evaluated(name + "(data)", name)
            continue
        R.compare(name, {"TreeList": "TreeList.get(data)", "yield_from_files": "Tree.yield_from_files([StringIO])",
                         "DataSet": "DataSet.get(data)"}[name], prim[name], want, conv[name])
    if prim["DataSet"][0] == "ok" and schema != "newick":
        sizes = [len(tl) for tl in prim["DataSet"][1].tree_lists]
        if sizes != list(blocks):
            R.viol("DataSet", "collection-sizes", "tree lists of sizes %s, the document has collections %s" % (sizes, list(blocks)), "DataSet.get(data)")

    # --- source kinds: file= and path= against data= of the same route
    def same_as(family, route, oc_data, oc_other, conv_):
        R.evaluated(route, "source-dispatch")
        if oc_data[0] != oc_other[0]:
            R.viol("source-dispatch:" + family, "outcome", "%s, data= %s" % (
                "raises %s" % oc_other[1] if oc_other[0] != "ok" else "succeeds", "raises %s" % oc_data[1] if oc_data[0] != "ok" else "succeeds"), route)
            return
        if oc_data[0] != "ok":
            return
        a = [tree_snap(t) for t in conv_(oc_other[1])]
        b = [tree_snap(t) for t in conv_(oc_data[1])]
        fields, detail = diff_lists(a, b)
        for f in fields:
            R.viol("source-dispatch:" + family, f, detail[f], route)

    for kind in ("file", "path"):
        same_as("TreeList", "TreeList.get(%s)" % kind, prim["TreeList"], attempt(lambda: TL.get(**env.src(kind), **env.K())), conv["TreeList"])
        same_as("DataSet", "DataSet.get(%s)" % kind, prim["DataSet"], attempt(lambda: DS.get(**env.src(kind), **env.K())), ds_trees)
    same_as("yield_from_files", "Tree.yield_from_files([path])", prim["yield_from_files"],
            attempt(lambda: list(T.yield_from_files([env.path], **env.K()))), conv["yield_from_files"])
    same_as("TreeList", "TreeList.get_from_string", prim["TreeList"], attempt(lambda: TL.get_from_string(text, **env.K())), conv["TreeList"])
    same_as("TreeList", "TreeList.get_from_path", prim["TreeList"], attempt(lambda: TL.get_from_path(env.path, **env.K())), conv["TreeList"])

    # --- Tree.get at every (collection, tree) offset
    tg00 = None
    for bi, (lo, hi) in enumerate(sl):
        for tj in range(hi - lo):
            oc = attempt(lambda: T.get(**env.src("data"), **env.K(collection_offset=bi, tree_offset=tj)))
            if bi == 0 and tj == 0:
                tg00 = oc
            R.compare("Tree.get", "Tree.get(data, collection_offset=%d, tree_offset=%d)" % (bi, tj), oc, [want[lo + tj]], lambda v: [v])
    oc = attempt(lambda: T.get(**env.src("data"), **env.K()))
    R.compare("Tree.get", "Tree.get(data) without offsets", oc, [want[0]], lambda v: [v])
    if len(sl) > 1:
        lo, hi = sl[-1]
        oc = attempt(lambda: T.get(**env.src("data"), **env.K(collection_offset=len(sl) - 1)))
        R.compare("Tree.get", "Tree.get(data, collection_offset=last)", oc, [want[lo]], lambda v: [v])
    if sl[0][1] > 1:
        oc = attempt(lambda: T.get(**env.src("data"), **env.K(tree_offset=1)))
        R.compare("Tree.get", "Tree.get(data, tree_offset=1)", oc, [want[1]], lambda v: [v])
    for kind in ("file", "path"):
        same_as("Tree.get", "Tree.get(%s)" % kind, tg00, attempt(lambda: T.get(**env.src(kind), **env.K(collection_offset=0, tree_offset=0))), lambda v: [v])

    # --- TreeList.get / read with offsets
    offs = []
    for bi, (lo, hi) in enumerate(sl):
        offs.append((bi, None, want[lo:hi]))
        for tj in range(hi - lo):
            offs.append((bi, tj, want[lo + tj:hi]))
        offs.append((bi, -1, want[hi - 1:hi]))
    offs.append((-1, None, want[sl[-1][0]:sl[-1][1]]))
    for tj in range(sl[0][1]):
        offs.append((None, tj, want[tj:sl[0][1]]))
    for ci, tj, exp in offs:
        extra = {}
        if ci is not None:
            extra["collection_offset"] = ci
        if tj is not None:
            extra["tree_offset"] = tj
        oc = attempt(lambda: TL.get(**env.src("data"), **env.K(**extra)))
        R.compare("TreeList", "TreeList.get(data, %s)" % _fmt_extra(extra), oc, exp, conv["TreeList"], prefix="offsets:")

    def read_into(tl, kind="data", **extra):
        n = tl.read(**env.src(kind), schema=sch, **dict(env.kw, **extra))
        return tl, n

    oc = attempt(lambda: read_into(TL(taxon_namespace=env.newns())))
    trees = R.compare("TreeList", "TreeList().read(data)", oc, want, lambda v: list(v[0]._trees), prefix="read:")
    if trees is not None and oc[1][1] != len(want):
        R.viol("TreeList", "read:return-value", "read() returned %r for %d trees" % (oc[1][1], len(want)), "TreeList().read(data)")
    for kind in ("file", "path"):
        same_as("TreeList.read", "TreeList().read(%s)" % kind, oc, attempt(lambda: read_into(TL(taxon_namespace=env.newns()), kind)), lambda v: list(v[0]._trees))
    ci, tj = len(sl) - 1, sl[-1][1] - sl[-1][0] - 1
    oc = attempt(lambda: read_into(TL(taxon_namespace=env.newns()), collection_offset=ci, tree_offset=tj))
    R.compare("TreeList", "TreeList().read(data, collection_offset=%d, tree_offset=%d)" % (ci, tj), oc, want[-1:], lambda v: list(v[0]._trees), prefix="read:offsets:")

    noreread = bool(case.get("no_reread"))
    if noreread:
        # observed, never decided: what a second read of the same text into the same namespace does
        def probe():
            ns_ = ref_trees[0].taxon_namespace
            n_ = len(ns_._taxa)
            TL.get(**env.src("data"), **env.K(ns=ns_))
            return len(ns_._taxa) - n_
        oc = attempt(probe)
        ctx.count("non_deciding_reread_of_label_less_otus|" + ("namespace grows by %d" % oc[1] if oc[0] == "ok" else "%s@%s" % (oc[1], oc[2])))
        run_tree_array(env, R, ctx, blocks, sl, noreread=True)
        return

    # --- two sources through the iterator and two incremental reads into one list (own namespace)
    oc = attempt(lambda: list(T.yield_from_files([io.StringIO(text), env.path2], **env.K())))
    R.compare("yield_from_files", "Tree.yield_from_files([StringIO, path])", oc, want + want, None, prefix="two-sources:")

    # --- shared namespace: the reference trees' namespace is handed to further calls
    nss = set(id(t.taxon_namespace) for t in ref_trees)
    if len(nss) == 1:
        primfn = {"TreeList": lambda: TL.get(**env.src("data"), **env.K()),
                  "yield_from_files": lambda: list(T.yield_from_files([io.StringIO(text)], **env.K())),
                  "DataSet": lambda: DS.get(**env.src("data"), **env.K())}
        st = {"obj": prim[ref_name][1], "trees": ref_trees}

        def fresh():
            """(namespace, taxon ids per tree, labels) of a reference whose namespace nobody has touched"""
            ns = st["trees"][0].taxon_namespace
            if st.get("n") is not None and len(ns._taxa) != st["n"]:
                oc_ = attempt(primfn[ref_name])         # a previous check added taxa: start from a clean reference
                st["obj"] = oc_[1]
                st["trees"] = conv[ref_name](oc_[1])
                ns = st["trees"][0].taxon_namespace
                ctx.count("shared_namespace_reference_rebuilt")
            st["n"] = len(ns._taxa)
            return ns, [taxa_ids(t) for t in st["trees"]], [x._label for x in ns._taxa]

        def shared(family, route, fn, conv_, pick):
            ns0, ref_ids, labels0 = fresh()
            oc_ = attempt(lambda: fn(ns0))
            exp_snaps, exp_ids = pick(want), pick(ref_ids)
            trees_ = R.compare(family, route, oc_, exp_snaps, conv_, prefix="shared-namespace:")
            if trees_ is None:
                return
            if any(t.taxon_namespace is not ns0 for t in trees_):
                R.viol(family, "shared-namespace:tree-not-in-given-namespace", "a delivered tree is not attached to the namespace that was passed", route)
            if [taxa_ids(t) for t in trees_] != exp_ids and len(trees_) == len(exp_ids):
                now = [x._label for x in ns0._taxa]
                R.reported.add((family, "shared-namespace:different-taxon-objects"))
                R.viol(family, "shared-namespace:different-taxon-objects",
                       "trees read again into the namespace of the first read are attached to other Taxon objects than the first time "
                       "(namespace labels before %s, after %s)" % (labels0, now), route)
            elif len(ns0._taxa) != len(labels0) and "blocks=2" not in (case.get("feat") or ""):
                # (with two TAXA / otus blocks the reference namespace may hold the taxa of one block only)
                R.viol(family, "shared-namespace:namespace-grew", "re-reading the same text into the namespace of the first read added taxa: labels before %s, after %s" % (
                    labels0, [x._label for x in ns0._taxa]), route)

        whole = lambda x: list(x)
        twice = lambda x: list(x) + list(x)
        shared("TreeList", "TreeList(taxon_namespace=ns).read(data)", lambda ns0: read_into(TL(taxon_namespace=ns0)), lambda v: list(v[0]._trees), whole)
        for bi, (lo, hi) in enumerate(sl):
            for tj in range(hi - lo):
                shared("Tree.get", "Tree.get(data, taxon_namespace=ns, collection_offset=%d, tree_offset=%d)" % (bi, tj),
                       lambda ns0: T.get(**env.src("data"), **env.K(ns=ns0, collection_offset=bi, tree_offset=tj)),
                       lambda v: [v], lambda x: [x[lo + tj]])
        shared("yield_from_files", "Tree.yield_from_files([StringIO, path], taxon_namespace=ns)",
               lambda ns0: list(T.yield_from_files([io.StringIO(text), env.path], **env.K(ns=ns0))), None, twice)
        shared("DataSet", "DataSet.get(data, taxon_namespace=ns)", lambda ns0: DS.get(**env.src("data"), **env.K(ns=ns0)), ds_trees, whole)

        def ds_read_twice(ns0):
            ds = DS()
            ds.attach_taxon_namespace(ns0)
            ds.read(**env.src("data"), schema=sch, **env.kw)
            ds.read(**env.src("path"), schema=sch, **env.kw)
            return ds
        shared("DataSet", "DataSet(attached ns).read(data); .read(path)", ds_read_twice, ds_trees, twice)
    else:
        ctx.count("cases_without_single_reference_namespace")

    oc = attempt(lambda: _ds_read(DS(), env, "data"))
    R.compare("DataSet", "DataSet().read(data)", oc, want, ds_trees, prefix="read:")

    # --- TreeList.get followed by an incremental read into the list it returned
    if prim["TreeList"][0] == "ok":
        first = attempt(lambda: TL.get(**env.src("data"), **env.K()))
        if first[0] == "ok":
            tlx = first[1]
            n0 = len(tlx._trees)
            ids_first = [taxa_ids(t) for t in tlx._trees]
            snaps_first = [tree_snap(t) for t in tlx._trees]
            oc = attempt(lambda: read_into(tlx, "file"))
            route = "TreeList.get(data) then .read(file) into the same list"
            more = R.compare("TreeList", route, oc, want, lambda v: list(v[0]._trees)[n0:], prefix="incremental:")
            if more is not None:
                if [tree_snap(t) for t in tlx._trees[:n0]] != snaps_first:
                    R.viol("TreeList", "incremental:earlier-trees-changed", "reading more trees into a list changed the trees already in it", route)
                if [taxa_ids(t) for t in more] != ids_first and len(more) == n0 and ("TreeList", "shared-namespace:different-taxon-objects") not in R.reported:
                    R.viol("TreeList", "shared-namespace:different-taxon-objects",
                           "the second read into the same list attaches its trees to other Taxon objects (namespace labels now %s)" % ([x._label for x in tlx.taxon_namespace._taxa],), route)

    # --- TreeArray
    run_tree_array(env, R, ctx, blocks, sl)


def _fmt_extra(extra):
    return ", ".join("%s=%r" % kv for kv in sorted(extra.items())) or "no offsets"


def _ds_read(ds, env, kind):
    extra = {}
    ns = env.newns()
    if ns is not None:
        extra["taxon_namespace"] = ns
    if env.data_type:
        extra["data_type"] = env.data_type
    ds.read(**env.src(kind), schema=env.schema, **dict(env.kw, **extra))
    return ds


def _feq(a, b, tol=1e-9):
    return abs(a - b) <= tol * max(1.0, abs(a), abs(b))


def ta_data(ta):
    """(is_rooted_trees, per tree (splits as label sets with lengths, leafset as label set, weight), set of namespace labels):
    every bitmask is decoded against the array's own namespace, so a leaf attached to another
    taxon shows up as a different label set"""
    ns = ta.taxon_namespace
    labs = [x._label for x in ns._taxa]

    def lset(mask):
        return tuple(sorted(str(labs[i]) for i in range(len(labs)) if mask & (1 << i)))
    out = []
    for splits, lens, leafset, w in zip(ta._tree_split_bitmasks, ta._tree_edge_lengths, ta._tree_leafset_bitmasks, ta._tree_weights):
        pairs = sorted(((lset(s), L) for s, L in zip(splits, lens)), key=repr)
        out.append((tuple(pairs), lset(leafset), w))
    return (ta._is_rooted_trees, tuple(out), tuple(sorted(set(str(x) for x in labs))))


class Ctx2(object):
    """collects messages only (used to fold several symptoms of one semantic difference into one signature)"""

    def __init__(self):
        self.msgs = []

    def violation(self, sig, msg, case):
        self.msgs.append(msg)

    def case(self, *a, **k):
        pass

    def count(self, *a, **k):
        pass


def run_tree_array(env, R, ctx, blocks, sl, noreread=False):
    T, TL, TA = dendropy.Tree, dendropy.TreeList, dendropy.TreeArray
    text, sch = env.text, env.schema

    def expected(extra):
        # the trees TreeList.get delivers for the same arguments, accessioned by add_trees
        if extra.get("__double"):
            tl = TL.get(**env.src("data"), **env.K())
            tl.read(**env.src("data"), schema=sch, **env.kw)
        else:
            tl = TL.get(**env.src("data"), **env.K(**extra))
        ta = TA(taxon_namespace=tl.taxon_namespace)
        ta._c13_ref_weights = [t.weight for t in tl]
        ta.add_trees(tl)
        return ta

    def expected_fallback(extra):
        # TreeList.get cannot read the document: take the trees from the iterator
        files = [io.StringIO(text), io.StringIO(text)] if extra.get("__double") else [io.StringIO(text)]
        kw_ = env.K()
        if "taxon_namespace" not in kw_ and not env.kw.get("case_sensitive_taxon_labels"):
            kw_["taxon_namespace"] = dendropy.TaxonNamespace()
        trees = list(T.yield_from_files(files, **kw_))
        ta = TA(taxon_namespace=trees[0].taxon_namespace)
        ta._c13_ref_weights = [t.weight for t in trees]
        ta.add_trees(trees)
        return ta

    def check(route, fn, extra, what=""):
        if what.startswith("tree_offset:multi-collection") or what.startswith("collection_offset"):
            # several symptoms (count, exception, rooting) of one semantic difference: one signature
            sub = Reporter(ctx, R.case, env, R.nontrivial)
            c2 = Ctx2()
            sub.ctx = c2
            check_(sub, route, fn, extra, "")
            R.evaluated(route, "TreeArray")
            if c2.msgs:
                R.viol("TreeArray", what.rstrip(":"), c2.msgs[0].split("  [options")[0].split(": ", 1)[-1], route,
                       schema_free=what.startswith("collection_offset"))
            return
        check_(R, route, fn, extra, what)

    def check_(R, route, fn, extra, what):
        R.evaluated(route, "TreeArray")
        exp = attempt(lambda: expected(extra))
        if exp[0] != "ok" and exp[1] not in ("MixedRootingError",) and not [k for k in extra if k != "__double"]:
            exp = attempt(lambda: expected_fallback(extra))
        got = attempt(fn)
        if exp[0] != "ok":
            if got[0] == "ok":
                if exp[1] == "MixedRootingError":
                    R.viol("TreeArray", what + "accepts-mixed-rooting", "TreeArray.read succeeds where add_trees of the same trees raises MixedRootingError", route)
                else:
                    ctx.count("tree_array_cases_without_expectation")
            else:
                ctx.count("tree_array_both_raise|" + exp[1])
            return
        if got[0] != "ok":
            R.exc("TreeArray", route, got)
            return
        a, b = ta_data(got[1]), ta_data(exp[1])

        def tv(field, msg):
            if ("TreeArray", field) in R.reported:
                ctx.count("repeat_observations_of_a_reported_difference")
                return
            if not what:
                R.reported.add(("TreeArray", field))
            R.viol("TreeArray", what + field, msg, route)
        if a[2] != b[2]:
            tv("namespace-labels", "namespace of the array holds labels %s, the namespace of the reference trees %s" % (list(a[2]), list(b[2])))
        if a[0] != b[0]:
            tv("is_rooted_trees", "is_rooted_trees %r, add_trees of the reference trees gives %r" % (a[0], b[0]))
        if len(a[1]) != len(b[1]):
            tv("tree-count", "%d trees stored, reference route delivers %d" % (len(a[1]), len(b[1])))
        elif a[1] != b[1]:
            i = [x != y for x, y in zip(a[1], b[1])].index(True)
            f = "weights" if a[1][i][2] != b[1][i][2] else ("leafset" if a[1][i][1] != b[1][i][1] else "splits-or-lengths")
            tv(f, "tree %d stored as %r, add_trees of the reference tree gives %r" % (i, a[1][i], b[1][i]))
        # --- weights: independent expectation from the weights of the trees TreeList.get delivers
        # (TreeArray docstring: a tree's weight is used unless use_tree_weights is False; no weight = 1.0)
        ref_w = getattr(exp[1], "_c13_ref_weights", None)
        if ref_w is None or len(a[1]) != len(ref_w):
            return
        want_w = [float(w) if w is not None else 1.0 for w in ref_w]
        got_w = [float(w) for w in got[1]._tree_weights]
        zt = "|zero-weight" if any(w == 0 for w in want_w) else ""
        ctx.count("tree_array_weight_vectors_compared")
        if zt:
            ctx.count("tree_array_weight_vectors_with_a_zero_weight")
        bad = [i for i, (x, y) in enumerate(zip(got_w, want_w)) if not _feq(x, y)]
        if bad:
            i = bad[0]
            tv("tree-weights" + ("|zero-weight" if want_w[i] == 0 else ""),
               "array holds weight %r for tree %d, the tree delivered by the list route has weight %r (array weights %s, tree weights %s)" % (
                   got_w[i], i, ref_w[i], got_w, ref_w))
        sd = got[1]._split_distribution
        if not _feq(float(sd.sum_of_tree_weights), sum(want_w)):
            tv("sum-of-tree-weights" + zt, "split distribution of the array has sum_of_tree_weights %r, the trees' weights add up to %r" % (sd.sum_of_tree_weights, sum(want_w)))
        labs = [x._label for x in got[1].taxon_namespace._taxa]

        def lset(mask):
            return tuple(sorted(str(labs[j]) for j in range(len(labs)) if mask & (1 << j)))
        want_counts = {}
        for i, splits in enumerate(got[1]._tree_split_bitmasks):
            for sp in splits:
                want_counts[sp] = want_counts.get(sp, 0.0) + want_w[i]
        got_counts = dict(sd.split_counts)
        wrong = [sp for sp in sorted(set(want_counts) | set(got_counts)) if not _feq(float(got_counts.get(sp, 0.0)), want_counts.get(sp, 0.0))]
        if wrong:
            sp = wrong[0]
            tv("weighted-split-counts" + zt, "split %s has weighted count %r in the array, the weights of the trees that carry it add up to %r" % (
                lset(sp), got_counts.get(sp), want_counts.get(sp)))
        total = sum(want_w)
        if total > 0:
            fr = attempt(lambda: dict(sd.split_frequencies))
            if fr[0] != "ok":
                tv("split-frequencies" + zt, "split_frequencies raises %s (%s)" % (fr[1], fr[3]))
            else:
                wrongf = [sp for sp in sorted(want_counts) if not _feq(float(fr[1].get(sp, 0.0)), want_counts[sp] / total)]
                if wrongf:
                    sp = wrongf[0]
                    tv("split-frequencies" + zt, "split %s has frequency %r, definition gives %r" % (lset(sp), fr[1].get(sp), want_counts[sp] / total))
        else:
            ctx.count("tree_array_all_weights_zero_frequencies_not_demanded")

    def reader(kind="data", **extra):
        def fn():
            ta = TA(taxon_namespace=env.newns())
            ta.read(**env.src(kind), schema=sch, **dict(env.kw, **extra))
            return ta
        return fn
    check("TreeArray.read(data)", reader("data"), {})
    check("TreeArray.read(file)", reader("file"), {})
    check("TreeArray.read(path)", reader("path"), {})

    def rff():
        ta = TA(taxon_namespace=env.newns())
        ta.read_from_files([env.path, io.StringIO(text)], sch, **env.kw)
        return ta
    if not noreread:
        check("TreeArray.read_from_files([path, StringIO])", rff, {"__double": True}, "two-sources:")
    if not env.opts:
        multi = len(blocks) > 1
        for tj in range(1, max(n for n in blocks)):
            if tj < blocks[0]:
                check("TreeArray.read(data, tree_offset=%d)" % tj, reader("data", tree_offset=tj), {"tree_offset": tj},
                      "tree_offset:multi-collection:" if multi else "tree_offset:")
        check("TreeArray.read(data, collection_offset=0)", reader("data", collection_offset=0), {"collection_offset": 0}, "collection_offset:")


# ---------------------------------------------------------------------------
# character matrices

def matrix_snap(cm):
    rows = []
    for taxon in cm._taxon_sequence_map:
        seq = cm._taxon_sequence_map[taxon]
        try:
            vals = tuple(str(v) for v in seq.symbols_as_list())
        except Exception:
            vals = tuple(repr(v) for v in seq)
        rows.append((taxon._label, vals, anno_snap(seq)))
    subsets = tuple(sorted((str(k), tuple(sorted(v.character_indices))) for k, v in getattr(cm, "character_subsets", {}).items()))
    return (type(cm).__name__, cm.label, tuple(rows), subsets, len(getattr(cm, "state_alphabets", []) or []), tuple(cm.comments), anno_snap(cm))


MATRIX_FIELDS = ["matrix-class", "matrix-label", "rows", "character-subsets", "state-alphabet-count", "matrix-comments", "matrix-annotations"]


def run_char_case(case, ctx, tmp):
    text, schema, classes = render(case)
    opts = case["opts"]
    env = Env(text, schema, opts, tmp)
    env.data_type = case.get("data_type")
    R = Reporter(ctx, case, env, nontrivial=True)
    ctx.count("cases|chars|" + schema)
    DS = dendropy.DataSet
    ref = attempt(lambda: DS.get(**env.src("data"), **env.DK()))
    R.evaluated("DataSet.get(data)", "DataSet")
    cls0 = getattr(dendropy, classes[0])
    if ref[0] != "ok":
        oc = attempt(lambda: cls0.get(**env.src("data"), **env.K()))
        if oc[0] == "ok":
            R.viol("CharacterMatrix", "succeeds-where-DataSet-raises", "%s.get succeeds, DataSet.get raises %s@%s (%s)" % (classes[0], ref[1], ref[2], ref[3]), "%s.get(data)" % classes[0])
        else:
            ctx.count("cases_where_all_primary_routes_raise")
        return
    ds = ref[1]
    cms = list(ds.char_matrices)
    if len(cms) != len(classes):
        R.viol("reference:DataSet", "matrix-count", "DataSet.get delivers %d matrices, the document has %d" % (len(cms), len(classes)), "DataSet.get(data)")
        return
    want = [matrix_snap(cm) for cm in cms]
    ctx.count("matrices_in_documents", len(cms))

    def cmp(family, route, oc, exp, prefix=""):
        R.evaluated(route, family)
        if oc[0] != "ok":
            R.exc(family, route, oc)
            return None
        got = matrix_snap(oc[1])
        for i, f in enumerate(MATRIX_FIELDS):
            if got[i] != exp[i]:
                if (family, f) in R.reported:
                    ctx.count("repeat_observations_of_a_reported_difference")
                    continue
                if not prefix:
                    R.reported.add((family, f))
                R.viol(family, prefix + f, "%s %r, matrix in the DataSet has %r" % (f, got[i], exp[i]), route)
        return oc[1]

    for k, cname in enumerate(classes):
        cls = getattr(dendropy, cname)
        for kind in ("data", "file", "path"):
            oc = attempt(lambda: cls.get(**env.src(kind), **env.K(matrix_offset=k)))
            cmp("CharacterMatrix", "%s.get(%s, matrix_offset=%d)" % (cname, kind, k), oc, want[k])
        if k == 0:
            oc = attempt(lambda: cls.get(**env.src("data"), **env.K()))
            cmp("CharacterMatrix", "%s.get(data) without offset" % cname, oc, want[0])
        # shared namespace
        ns0 = cms[k].taxon_namespace
        ids0 = [id(t) for t in cms[k]._taxon_sequence_map]
        labels0 = [x._label for x in ns0._taxa]
        oc = attempt(lambda: cls.get(**env.src("data"), **env.K(ns=ns0, matrix_offset=k)))
        cm2 = cmp("CharacterMatrix", "%s.get(data, taxon_namespace=ns of the DataSet matrix, matrix_offset=%d)" % (cname, k), oc, want[k], "shared-namespace:")
        if cm2 is not None:
            if cm2.taxon_namespace is not ns0:
                R.viol("CharacterMatrix", "shared-namespace:matrix-not-in-given-namespace", "matrix is not attached to the namespace passed", "%s.get" % cname)
            elif [id(t) for t in cm2._taxon_sequence_map] != ids0:
                R.viol("CharacterMatrix", "shared-namespace:different-taxon-objects",
                       "rows are attached to other Taxon objects (namespace labels before %s, after %s)" % (labels0, [x._label for x in ns0._taxa]), "%s.get" % cname)
    for kind in ("file", "path"):
        oc = attempt(lambda: DS.get(**env.src(kind), **env.DK()))
        R.evaluated("DataSet.get(%s)" % kind, "source-dispatch")
        if oc[0] != "ok":
            R.exc("source-dispatch:DataSet", "DataSet.get(%s)" % kind, oc)
        elif [matrix_snap(cm) for cm in oc[1].char_matrices] != want:
            R.viol("source-dispatch:DataSet", "matrices", "matrices differ from data= route", "DataSet.get(%s)" % kind)
    oc = attempt(lambda: _ds_read(DS(), env, "data"))
    R.evaluated("DataSet().read(data)", "DataSet")
    if oc[0] != "ok":
        R.exc("DataSet", "DataSet().read(data)", oc)
    elif [matrix_snap(cm) for cm in oc[1].char_matrices] != want:
        R.viol("DataSet", "read:matrices", "DataSet().read delivers other matrices than DataSet.get", "DataSet().read(data)")
    if schema in ("nexus", "nexml"):
        oc = attempt(lambda: DS.get(**env.src("data"), **env.DK(exclude_trees=True)))
        R.evaluated("DataSet.get(data, exclude_trees=True)", "DataSet")
        if oc[0] != "ok":
            R.exc("DataSet", "DataSet.get(data, exclude_trees=True)", oc)
        elif [matrix_snap(cm) for cm in oc[1].char_matrices] != want:
            R.viol("DataSet", "exclude_trees:matrices", "matrices differ when the trees are excluded", "DataSet.get(data, exclude_trees=True)")
        # trees of a mixed document: the tree routes must agree as well
        if ds.tree_lists:
            wt = [tree_snap(t) for t in ds_trees(ds)]
            oc = attempt(lambda: dendropy.TreeList.get(**env.src("data"), **env.K()))
            R.compare("TreeList", "TreeList.get(data) on a document with character blocks", oc, wt, lambda v: list(v._trees), prefix="mixed-document:")
            oc = attempt(lambda: list(dendropy.Tree.yield_from_files([io.StringIO(text)], **env.K())))
            R.compare("yield_from_files", "Tree.yield_from_files on a document with character blocks", oc, wt, None, prefix="mixed-document:")


# ---------------------------------------------------------------------------

def run_multi_case(case, ctx, tmp):
    """several sources, one namespace: every route that takes the sources together (one reader kept across
    them) or one after the other must deliver what TreeList.get(taxon_namespace=shared) delivers file by file"""
    texts, schema, counts = render(case)
    opts = case["opts"]
    env = Env("\n".join(texts), schema, opts, tmp)
    R = Reporter(ctx, case, env, nontrivial=True)
    ctx.count("cases|multi|" + schema)
    T, TL, DS, TA = dendropy.Tree, dendropy.TreeList, dendropy.DataSet, dendropy.TreeArray
    kw = env.kw
    paths = []
    for i, t in enumerate(texts):
        pth = os.path.join(tmp, "multi_%d.txt" % i)
        with open(pth, "w", newline="") as f:
            f.write(t)
        paths.append(pth)

    def newns():
        return dendropy.TaxonNamespace(is_case_sensitive=bool(kw.get("case_sensitive_taxon_labels")))

    def reference():
        ns = newns()
        trees = []
        for t in texts:
            try:
                tl = TL.get(data=t, schema=schema, taxon_namespace=ns, **kw)
                trees.extend(tl._trees)
            except Exception:
                ctx.count("multi_reference_taken_from_DataSet_with_attached_namespace")
                ds = DS.get(data=t, schema=schema, taxon_namespace=ns, **kw)
                trees.extend(ds_trees(ds))
        return ns, trees
    ref = attempt(reference)
    R.evaluated("reference", "multi-file|reference")
    if ref[0] != "ok":
        ctx.count("multi_cases_without_reference")
        return
    want = [tree_snap(t) for t in ref[1][1]]
    if len(want) != sum(counts):
        R.viol("multi-file|reference", "tree-count", "file-by-file reads deliver %d trees, the documents hold %d" % (len(want), sum(counts)), "TreeList.get per file")
        return
    ctx.count("trees_in_documents", len(want))
    names = case.get("names")

    def check(route, fn, to_trees):
        family = "multi-file|" + route.split("(")[0].split(" ")[0]
        ns = newns()
        oc = attempt(lambda: fn(ns))
        if oc[0] != "ok" and oc[1] == "TooManyTaxaError" and route.startswith("TreeList.read"):
            # the listed finding (the TreeList front end counts taxa already in the namespace against NTAX), met through
            # an earlier file instead of an earlier TAXA block: same signature
            R.evaluated(route, family)
            R.exc("TreeList", "%s over %s" % (route, names), oc)
            return
        trees = R.compare(family, "%s over %s" % (route, names), oc, want, to_trees)
        if trees is None:
            return
        members = set(id(x) for x in ns._taxa)
        by_label = {}
        for t in trees:
            if t.taxon_namespace is not ns:
                R.viol(family, "tree-not-in-given-namespace", "a delivered tree is not attached to the shared namespace", route)
                break
            for nd in t.preorder_node_iter():
                if nd.taxon is not None:
                    by_label.setdefault(nd.taxon._label, set()).add(id(nd.taxon))
                    if id(nd.taxon) not in members:
                        by_label.setdefault(nd.taxon._label, set()).add(-1)
        labels = [x._label for x in ns._taxa]
        if any(len(v) > 1 for v in by_label.values()) or len(set(labels)) != len(labels):
            R.viol(family, "different-taxon-objects", "one label is carried by several Taxon objects across the sources (namespace labels %s)" % (labels,), route)

    def srcs(kind):
        if kind == "stringio":
            return [io.StringIO(t) for t in texts]
        if kind == "paths":
            return list(paths)
        return [paths[i] if i % 2 else io.StringIO(texts[i]) for i in range(len(texts))]

    for kind in ("stringio", "paths", "mixed"):
        check("Tree.yield_from_files(%s)" % kind, lambda ns: list(T.yield_from_files(srcs(kind), schema, taxon_namespace=ns, **kw)), None)

    def read_each(ns):
        tl = TL(taxon_namespace=ns)
        for i, t in enumerate(texts):
            if i % 2:
                tl.read(path=paths[i], schema=schema, **kw)
            else:
                tl.read(data=t, schema=schema, **kw)
        return list(tl._trees)
    check("TreeList.read(one call per file, one list)", read_each, None)

    def ds_each(ns):
        ds = DS()
        ds.attach_taxon_namespace(ns)
        for i, t in enumerate(texts):
            if i % 2:
                ds.read(path=paths[i], schema=schema, **kw)
            else:
                ds.read(data=t, schema=schema, **kw)
        return ds_trees(ds)
    check("DataSet.read(one call per file, attached namespace)", ds_each, None)

    # tree arrays: content against an array filled by add_trees from the file-by-file trees
    def expected():
        ns, trees = reference()
        ta = TA(taxon_namespace=ns)
        ta._c13_ref_weights = [t.weight for t in trees]
        ta.add_trees(trees)
        return ta
    exp = attempt(expected)

    def ta_check(route, fn):
        family = "multi-file|" + route.split("(")[0]
        R.evaluated(route, family)
        got = attempt(fn)
        if exp[0] != "ok":
            ctx.count("multi_tree_array_without_expectation|" + exp[1])
            return
        if got[0] != "ok":
            R.exc(family, "%s over %s" % (route, names), got)
            return
        a, b = ta_data(got[1]), ta_data(exp[1])
        if len(a[1]) != len(b[1]):
            R.viol(family, "tree-count", "%d trees stored, file-by-file reads deliver %d" % (len(a[1]), len(b[1])), route)
        elif a[1] != b[1] or a[0] != b[0]:
            i = ([x != y for x, y in zip(a[1], b[1])] + [True]).index(True)
            i = min(i, len(a[1]) - 1)
            f = "is_rooted_trees" if a[1] == b[1] else ("weights" if a[1][i][2] != b[1][i][2] else ("leafset" if a[1][i][1] != b[1][i][1] else "splits-or-lengths"))
            R.viol(family, f, "tree %d stored as %r, the tree read on its own gives %r (sources %s)" % (i, a[1][i], b[1][i], names), route)
        if a[2] != b[2]:
            R.viol(family, "namespace-labels", "array namespace holds %s, file-by-file namespace %s" % (list(a[2]), list(b[2])), route)

    def rff():
        ta = TA(taxon_namespace=newns())
        ta.read_from_files(srcs("mixed"), schema, **kw)
        return ta

    def ta_each():
        ta = TA(taxon_namespace=newns())
        for t in texts:
            ta.read(data=t, schema=schema, **kw)
        return ta
    ta_check("TreeArray.read_from_files(mixed)", rff)
    ta_check("TreeArray.read(one call per file)", ta_each)


def run_case(case, ctx, tmp):
    if case["kind"] == "multi":
        run_multi_case(case, ctx, tmp)
    elif case["kind"] == "trees":
        run_tree_case(case, ctx, tmp)
    else:
        run_char_case(case, ctx, tmp)


def compact(case):
    """the descriptor stored with a violation: self-contained (carries the text)"""
    text, schema, extra = render(case)
    if case["kind"] == "multi":
        menu = multi_menu(schema)
        names = [menu[i][0] for i in case["p"]["seq"]] if "p" in case else case.get("names")
        c = {"kind": "multi", "schema": schema, "opts": case["opts"], "texts": list(text), "counts": list(extra), "names": names}
        if any("empty-label" in n for n in names or []):
            c["feat"] = "empty-label"
        return c
    c = {"kind": case["kind"], "schema": schema, "opts": case["opts"], "text": text}
    p = case.get("p") or {}
    if case["kind"] == "trees" and p.get("empty"):
        if "missing" in p["empty"]:
            # an otu without label attribute cannot be matched by label on a second read (and the
            # unchanged reader fails on such a namespace): re-reads are observed, not decided
            c["feat"] = "unlabelled-otu"
            c["no_reread"] = True
        else:
            c["feat"] = "empty-label"
    elif case["kind"] == "trees" and p.get("vocab"):
        c["feat"] = "label-vocabulary" + (",taxa-blocks=%s" % {"none": 0, "one": 1}[p["taxa"]] if schema == "nexus" else "")
    elif case["kind"] == "trees" and schema == "nexus":
        c["feat"] = "taxa-blocks=%s,translate=%s" % ({"none": 0, "one": 1}.get(p.get("taxa"), 2), p.get("translate"))
    elif case["kind"] == "trees" and schema == "nexml":
        c["feat"] = "otus-blocks=%s" % (1 if p.get("otus") == "one" else 2)
    if case["kind"] == "trees":
        c["blocks"] = list(extra)
    else:
        c["classes"] = list(extra)
        if schema in ("fasta", "phylip"):
            c["data_type"] = p["kind"]
    return c


def run_chunk(chunk, ctx):
    cases = layer_cases(chunk["layer"], chunk["tier"])[chunk["lo"]:chunk["hi"]]
    tmp = tempfile.mkdtemp(prefix="verif-C13-")
    try:
        for case in cases:
            cc = compact(case)
            ctx.count("cases|layer|" + chunk["layer"])
            run_case(cc, ctx, tmp)
            if chunk["lo"] == 0 and case is cases[0]:
                ctx.sample({"layer": chunk["layer"], "schema": cc["schema"], "options": cc["opts"],
                            "text": (cc["text"] if "text" in cc else "\n----\n".join(cc["texts"]))[:700]}, 6)
    finally:
        shutil.rmtree(tmp, ignore_errors=True)
    return None


def replay(case, ctx):
    tmp = tempfile.mkdtemp(prefix="verif-C13-")
    try:
        c = dict(case)
        c.pop("route", None)
        run_case(c if ("text" in c or "texts" in c) else compact(c), ctx, tmp)
    finally:
        shutil.rmtree(tmp, ignore_errors=True)
