"""C15 - every traversal visits each node / edge exactly once in its defining order
(DESIGN 3/C15).

Engine E1.  Universe: EVERY plane (= ordered, unlabelled) tree with at most N nodes,
out-degree >= 1 allowed everywhere.  That contains the single-node tree, every child
ordering of every shape with <= 5 leaves (<= 9 nodes without unifurcations), every
placement of unifurcation chains that fits the node bound, all stars up to width N-1.
Taxa are irrelevant to iteration, so labelled shapes would only repeat plane trees.

A *start* is the Tree itself or any Node of it (subtree traversal).  A *filter* is a
subset of the nodes (every stateless predicate is one); predicates return exactly
True / False (documented domain) and raise if the library hands them anything that is
not a node (resp. edge) of the tree.

Oracles demand what the property statement says and nothing more:
  pre-order          = the unique sequence parent-first / siblings left to right
  post-order         = every node once, every child before its parent
  level-order        = every node once, depth non-decreasing
  in-order (binary)  = left subtree, node, right subtree
  leaves             = left to right
  age-order          = every node once, reference ages monotone in the asked direction
  internal variants  = exactly the non-leaves (tree seed excluded on request), in the
                       order rule of their base traversal
  filtered variant   = exactly the subsequence of the library's own unfiltered output
  edge iterator      = the edges of the nodes its node counterpart yields, same order
  list accessors     = exactly the right members, each once (no order demanded)
  len(tree)          = number of leaves
  apply              = bracket sequence of the Newick rendering of the (sub)tree
"""
import itertools
import warnings

from dendropy.utility import deprecate

from mc import ref, build

ID = "C15"
LEVEL = "exploration"
EXHAUSTIVE = True
RULE = ("every plane (ordered) tree with <= max_nodes nodes (all out-degrees >= 1: single node, unifurcation chains, "
        "every child order, stars) x every start (the Tree, and every Node as subtree root) x every iterator kind and "
        "flag combination on Tree and Node x a complete family of filter predicates (all node subsets for small trees; "
        "constant, is-leaf, is-internal, depth parity, each single node kept / dropped, taxon label in each subset of a "
        "3-label set otherwise); age order additionally x ultrametric height patterns (all monotone assignments over "
        "{0,1,2} for few internal nodes, five patterns with / without ties otherwise); apply x all 8 callback subsets. "
        "In addition a stated finite set of LARGE representatives (stars of width 16..130, left- and right-leaning "
        "ladders with 17..65 tips, balanced binary trees with 16/32/64 leaves, a broom, a unifurcation chain of 40; "
        "listed in bounds) - chosen to straddle block sizes 16/32/64/128 that a queue or stack implementation might use - "
        "x starts {Tree, seed, every child of the seed, a deepest internal node} x every iterator kind and flag "
        "combination, len, apply x filters {T, F, is-leaf, depth parity}, same oracle; that layer is exhaustive over the "
        "stated set only, it is not a size bound. "
        "STATE BETWEEN CALLS (small universe, node bounds in bounds.state_between_calls): (1) Tree.apply / Node.apply / a Newick "
        "write whose callback raises at every position k of the callback sequence, followed by a normal apply on the "
        "same tree, on another tree and by as_string(newick), each judged by the bracket oracle; a callback that runs a "
        "complete apply / Newick write from inside every position k (inner and outer sequence judged); (2) for every ordered "
        "pair of 18 iterator families: the first consumed for every k items and left suspended or closed, then a fresh "
        "complete run of the second (same tree; of the first on another tree), then the suspended one resumed; two iterators "
        "advanced in strict alternation, and in EVERY interleaving pattern on trees up to the stated size; (3) complete runs "
        "of everything, one structural edit through the public API (new_child, insert_new_child(0), remove_child, "
        "reseed_at, reroot_at_node at every admissible node), complete runs again judged against the structure re-read "
        "from the primitive links. "
        "A case key = one (tree [, height pattern], start, iterator kind) resp. one (tree, first call, position); its evaluations = every flag combination x "
        "every filter of the family (one library call each, counted in iterator_calls); "
        "non-trivial = the tree has at least 3 nodes")
ASSUMPTIONS = [
    "reference structure = the plane tree the harness built, re-read from Node._child_nodes / _parent_node / _edge (primitive links)",
    "filter predicates are stateless and return exactly True or False (documented domain of filter_fn)",
    "in-order traversal is only driven on strictly bifurcating (sub)trees (documented domain)",
    "age order: Node.ageorder_iter reads the 'age' attribute, set by the harness from reference heights; "
    "Tree.ageorder_node_iter is driven on ultrametric trees with integer edge lengths and computes ages itself; "
    "monotonicity is judged on the reference ages; on trees with <= 4 nodes ages are additionally exact non-float numbers "
    "(int 2**53+k, Fraction(1,3)+k/10**30, int/float mix, every permutation of k over the nodes) assigned directly to "
    "node.age, and monotonicity is judged by Python's exact comparison of those numbers",
    "'the seed' excluded by exclude_seed_node / exclude_seed_edge is the tree's seed node (a subtree start that has a parent is kept)",
    "state layer: the Newick string of a tree with labels t<i> / n<i> and integer lengths is exactly the bracket rendering "
    "(checked on the untouched tree first); edits that raise or leave a malformed tree are other properties' business and are "
    "counted, not judged",
    "list accessors (nodes, edges, leaf_nodes, internal_nodes, leaf_edges, internal_edges, Node.leaf_nodes), child and ancestor "
    "iterators are only required to deliver exactly the right members once each",
]
MANIFEST = {
    "engine": "E1-ENUM",
    "text": "For every ordered tree with at most 9 (quick) / 10 (thorough) nodes, from every start node and on the tree "
            "itself, every node iterator, edge iterator, list accessor, len() and the apply() callback walk was run with "
            "every flag combination and a complete family of filters and compared with an order oracle computed from the "
            "nested-tuple tree: no iterator skips, repeats or misorders a node or edge on any of these trees.  The same "
            "oracle was run on a stated set of 25 large representatives (stars to width 130, ladders to 65 tips, balanced "
            "trees to 64 leaves, a broom, a chain of 40) to expose size-triggered faults (block trims, batch sizes).  Call sequences were "
            "explored as well: a call aborted by a failing callback at every position, re-entrant callbacks, iterators "
            "abandoned after every k items, two iterators interleaved, and traversals before / after a structural edit - "
            "no traversal is disturbed by state left behind by an earlier, unfinished or concurrent one.",
    "note": "trusted: the harness's own recursive walks over the nested tuple; Node._child_nodes as ground truth of structure",
    "technique": "exhaustive enumeration of plane trees x starts x iterators x filters against a reference traversal",
}


LARGE = {"star_widths": [16, 31, 32, 33, 34, 40, 64, 65, 100, 130],
         "ladder_tips_left_and_right_leaning": [17, 20, 33, 40, 65],
         "balanced_binary_leaves": [16, 32, 64],
         "broom_ladder_tips_then_star_width": [[20, 40]],
         "unifurcation_chain_lengths": [40],
         "starts": "the Tree, the seed node, every child of the seed, the first deepest internal node",
         "filters": ["T", "F", "is-leaf", "depth even", "depth odd"]}


def bounds(tier):
    if tier == "quick":
        b = {"max_nodes": 9, "all_subset_filters_up_to_nodes": 5, "all_height_patterns_up_to_internal": 3,
             "all_height_patterns_up_to_nodes": 7, "height_alphabet": [0, 1, 2]}
    else:
        b = {"max_nodes": 10, "all_subset_filters_up_to_nodes": 7, "all_height_patterns_up_to_internal": 4,
             "all_height_patterns_up_to_nodes": 9, "height_alphabet": [0, 1, 2]}
    b["exact_nonfloat_ages_up_to_nodes"] = 4      # int 2**53+k, Fraction(1,3)+k/10**30, int/float mix; every permutation of k over the nodes
    b["large_representatives (exhaustive over this stated set, both tiers)"] = LARGE
    q = tier == "quick"
    b["state_between_calls"] = {
        "aborted_and_reentrant_apply_max_nodes": b["max_nodes"],
        "aborted_apply_from_subtree_starts_max_nodes": 6 if q else 7,
        "reentrant_newick_max_nodes": 6 if q else 7,
        "abandoned_iterator_max_nodes": 5 if q else 6,
        "interleaved_alternating_max_nodes": 6 if q else 7,
        "interleaved_all_patterns_max_nodes": 3 if q else 4,
        "structural_edit_max_nodes": 6 if q else 7,
        "iterator_families": ["%s.%s" % (f[0], f[1]) for f in FAMS],
        "edit_operations": list(EDIT_OPS),
    }
    return b


# ---------------------------------------------------------------------------
# universe: plane trees.  A tree is the tuple of its children; a leaf is ().

_forest_cache = {0: [()]}
CATALAN = [1, 1, 2, 5, 14, 42, 132, 429, 1430, 4862, 16796, 58786]


def _forests(m):
    """all ordered forests with m nodes in total"""
    if m in _forest_cache:
        return _forest_cache[m]
    out = []
    for k in range(1, m + 1):
        for t in _forests(k - 1):
            for rest in _forests(m - k):
                out.append((t,) + rest)
    _forest_cache[m] = out
    return out


def plane_trees(n):
    """all plane trees with exactly n nodes"""
    res = _forests(n - 1)
    assert len(res) == CATALAN[n - 1], (n, len(res))
    return res


def tup(x):
    return tuple(tup(y) for y in x)


def show(env):
    return big_name(env.desc) if env.desc else pt_str(env.pt)


def tree_fields(env):
    """how a case dict names its tree: the nested list (small universe) or the descriptor (large representative)"""
    if env.desc:
        return {"tree": None, "big": list(env.desc), "newick": big_name(env.desc)}
    return {"tree": env.pt, "newick": pt_str(env.pt)}


def clip(text, env):
    return text if not env.desc or len(text) <= 500 else text[:500] + " ...[clipped]"


def pt_str(pt):
    if not pt:
        return "*"
    return "(" + ",".join(pt_str(c) for c in pt) + ")"


# ---------------------------------------------------------------------------
# large representatives: descriptor -> plane tree

def _ladder(k, lean):
    """caterpillar with k tips; lean 'L': the internal spine runs through first children"""
    t = ((), ())
    for _ in range(k - 2):
        t = (t, ()) if lean == "L" else ((), t)
    return t


def _balanced(leaves):
    if leaves == 1:
        return ()
    return (_balanced(leaves // 2), _balanced(leaves - leaves // 2))


def big_tree(desc):
    k = desc[0]
    if k == "star":
        return tuple(() for _ in range(desc[1]))
    if k == "ladder":
        return _ladder(desc[1], desc[2])
    if k == "balanced":
        return _balanced(desc[1])
    if k == "broom":        # right-leaning ladder whose last tip is replaced by a star
        t = tuple(() for _ in range(desc[2]))
        for _ in range(desc[1] - 1):
            t = ((), t)
        return t
    if k == "chain":        # desc[1] nodes, each the only child of the one before
        t = ()
        for _ in range(desc[1] - 1):
            t = (t,)
        return t
    raise ValueError(desc)


def big_name(desc):
    return "<%s>" % " ".join(str(x) for x in desc)


def big_descriptors():
    out = [["star", k] for k in LARGE["star_widths"]]
    for k in LARGE["ladder_tips_left_and_right_leaning"]:
        out += [["ladder", k, "L"], ["ladder", k, "R"]]
    out += [["balanced", k] for k in LARGE["balanced_binary_leaves"]]
    out += [["broom", a, b] for a, b in LARGE["broom_ladder_tips_then_star_width"]]
    out += [["chain", k] for k in LARGE["unifurcation_chain_lengths"]]
    return out


BIG_FILTERS = [["T"], ["F"], ["leaf"], ["depth", 0], ["depth", 1]]


# ---------------------------------------------------------------------------
# reference structure + live objects

class Env(object):
    """One plane tree: reference arrays indexed by pre-order number, and the live
    dendropy tree built from it through the node API."""

    def __init__(self, pt, heights=None, set_ages=False, desc=None, live=None):
        self.pt = pt
        self.desc = desc        # descriptor of a 'large representative' (None in the small universe)
        self.rooted = True
        ch, par, dep = [], [], []

        def rec(t, p, d):
            i = len(ch)
            ch.append([])
            par.append(p)
            dep.append(d)
            if p is not None:
                ch[p].append(i)
            for c in t:
                rec(c, i, d + 1)
        rec(pt, None, 0)
        n = len(ch)
        self.n, self.ch, self.par, self.dep = n, ch, par, dep
        self.leaf = [not ch[i] for i in range(n)]
        size = [1] * n
        for i in range(n - 1, 0, -1):
            size[par[i]] += size[i]
        self.size = size
        if heights is None:
            heights = default_heights(self)
        self.h = list(heights)
        self.leaf_ids = [i for i in range(n) if self.leaf[i]]
        lab = {}
        for k, i in enumerate(self.leaf_ids):
            lab[i] = "t%d" % k

        def snap(i):
            L = None if par[i] is None else self.h[par[i]] - self.h[i]
            return (lab.get(i), None if self.leaf[i] else "n%d" % i, L, tuple(snap(c) for c in ch[i]))
        if live is None:
            self.snap = snap(0)
            self.tree = build.build_tree((True, self.snap))
        else:       # adopt an existing (edited) tree: pt was read from its primitive links by live_pt()
            self.tree = live
            self.rooted, self.snap = ref.snapshot(live)
        nodes = []

        def walk(nd):
            nodes.append(nd)
            for c in nd._child_nodes:
                walk(c)
        walk(self.tree._seed_node)
        if len(nodes) != n or ref.snapshot(self.tree) != (self.rooted, self.snap):
            raise RuntimeError("harness: built tree differs from the plane tree %r" % (pt,))
        self.nodes = nodes
        self.nid = dict((id(nd), i) for i, nd in enumerate(nodes))
        self.eid = dict((id(nd._edge), i) for i, nd in enumerate(nodes))
        if set_ages:
            for i, nd in enumerate(nodes):
                nd.age = float(self.h[i])
        self._base = {}
        self._fsets = {}

    # -- reference traversals (lists of pre-order indices) ---------------------
    def pre(self, s):
        return list(range(s, s + self.size[s]))

    def inorder(self, s):
        c = self.ch[s]
        if not c:
            return [s]
        return self.inorder(c[0]) + [s] + self.inorder(c[1])

    def is_binary(self, s):
        return all(len(self.ch[i]) in (0, 2) for i in self.pre(s))

    def leaves(self, s):
        return [i for i in self.pre(s) if self.leaf[i]]

    def ancestors(self, s):
        out = []
        p = self.par[s]
        while p is not None:
            out.append(p)
            p = self.par[p]
        return out

    def brackets(self, s):
        """the before / leaf / after events of the Newick rendering of subtree s"""
        out = []

        def rec(i):
            if self.leaf[i]:
                out.append(("leaf", i))
            else:
                out.append(("before", i))
                for c in self.ch[i]:
                    rec(c)
                out.append(("after", i))
        rec(s)
        return out

    def unchanged(self):
        return ref.snapshot(self.tree) == (self.rooted, self.snap) and not ref.wellformed(self.tree)


def live_pt(tree):
    """plane tree of a live dendropy tree, from Node._child_nodes only"""
    def rec(nd, d):
        if d > 300:
            raise RuntimeError("live_pt: depth > 300 (cycle?)")
        return tuple(rec(c, d + 1) for c in nd._child_nodes)
    return rec(tree._seed_node, 0)


def default_heights(env):
    h = [0] * env.n
    for i in range(env.n - 1, -1, -1):
        if env.ch[i]:
            h[i] = 1 + max(h[c] for c in env.ch[i])
    return h


def height_patterns(env, b):
    """ultrametric height assignments (leaf = 0, parent >= child)"""
    internals = [i for i in range(env.n) if not env.leaf[i]]
    k = len(internals)
    pats = []
    if k <= b["all_height_patterns_up_to_internal"] and env.n <= b["all_height_patterns_up_to_nodes"]:
        for combo in itertools.product(b["height_alphabet"], repeat=k):
            h = [0] * env.n
            for i, v in zip(internals, combo):
                h[i] = v
            if all(env.par[i] is None or h[env.par[i]] >= h[i] for i in internals):
                pats.append(h)
        full = True
    else:
        full = False
    pats.append(default_heights(env))
    # distinct heights, increasing with post-order rank / decreasing with pre-order rank
    post_rank = {}
    for i in sorted(internals, key=lambda i: (i + env.size[i], -i)):   # children end before parents end
        post_rank[i] = len(post_rank) + 1
    h = [0] * env.n
    for i in internals:
        h[i] = post_rank[i]
    pats.append(h)
    h = [0] * env.n
    for r, i in enumerate(internals):
        h[i] = k - r
    pats.append(h)
    pats.append([0 if env.leaf[i] else 1 for i in range(env.n)])
    pats.append([0] * env.n)
    out, seen = [], set()
    for h in pats:
        if all(env.par[i] is None or h[env.par[i]] >= h[i] for i in range(env.n)) and tuple(h) not in seen:
            seen.add(tuple(h))
            out.append(h)
    return out, full


# ---------------------------------------------------------------------------
# filters

class Foreign(Exception):
    pass


def predicate(idmap, S):
    def f(x):
        i = idmap.get(id(x))
        if i is None:
            raise Foreign(type(x).__name__)
        return i in S
    return f


def filter_set(env, desc):
    key = tuple(desc)
    if key in env._fsets:
        return env._fsets[key]
    k = desc[0]
    rng = range(env.n)
    if k == "T":
        S = frozenset(rng)
    elif k == "F":
        S = frozenset()
    elif k == "leaf":
        S = frozenset(i for i in rng if env.leaf[i])
    elif k == "internal":
        S = frozenset(i for i in rng if not env.leaf[i])
    elif k == "depth":
        S = frozenset(i for i in rng if env.dep[i] % 2 == desc[1])
    elif k == "only":
        S = frozenset([desc[1]])
    elif k == "allbut":
        S = frozenset(i for i in rng if i != desc[1])
    elif k == "taxa":       # taxon label in a subset of {t0, t1, t2}
        S = frozenset(i for j, i in enumerate(env.leaf_ids[:3]) if desc[1] >> j & 1)
    elif k == "subset":
        S = frozenset(i for i in rng if desc[1] >> i & 1)
    else:
        raise ValueError(desc)
    env._fsets[key] = S
    return S


def family(env, start, b, reduced=False):
    """filter descriptors for traversals started at `start` (None = the Tree), deduplicated by the node set they select"""
    s = 0 if start is None else start
    if env.n <= b["all_subset_filters_up_to_nodes"] and not reduced:
        fam = [["subset", m] for m in range(2 ** env.n)]
    else:
        fam = [["T"], ["F"], ["leaf"], ["internal"], ["depth", 0], ["depth", 1]]
        if reduced:
            fam += [["only", s], ["allbut", s]]
        else:
            scope = env.pre(s) + env.ancestors(s)
            fam += [["only", i] for i in scope] + [["allbut", i] for i in scope]
            fam += [["taxa", m] for m in range(8)]
    out, seen = [], set()
    for d in fam:
        S = filter_set(env, d)
        if S not in seen:
            seen.add(S)
            out.append(d)
    return out


ALIAS_FILTERS = [["leaf"], ["depth", 0]]

# ---------------------------------------------------------------------------
# iterator kinds.  o = oracle, obj = what is yielded, filt = takes filter_fn,
# cp = node counterpart of an edge iterator, dep = deprecated alias

EX_N = [{}, {"exclude_seed_node": True}, {"exclude_seed_node": False}]
EX_E = [{}, {"exclude_seed_edge": True}, {"exclude_seed_edge": False}]
AGE = [{}, {"include_leaves": False}, {"descending": True}, {"include_leaves": False, "descending": True},
       {"include_leaves": True, "descending": False}]

SPECS = {
    ("Node", "preorder_iter"): dict(o="pre", obj="node", filt=True),
    ("Node", "__iter__"): dict(o="pre", obj="node", filt=False),
    ("Node", "postorder_iter"): dict(o="post", obj="node", filt=True),
    ("Node", "levelorder_iter"): dict(o="level", obj="node", filt=True),
    ("Node", "level_order_iter"): dict(o="level", obj="node", filt=True, dep=True),
    ("Node", "inorder_iter"): dict(o="in", obj="node", filt=True),
    ("Node", "leaf_iter"): dict(o="leaf", obj="node", filt=True),
    ("Node", "leaf_nodes"): dict(o="set:leaf", obj="node", filt=False),
    ("Node", "preorder_internal_node_iter"): dict(o="pre_int", obj="node", filt=True, kws=EX_N),
    ("Node", "postorder_internal_node_iter"): dict(o="post_int", obj="node", filt=True, kws=EX_N),
    ("Node", "child_node_iter"): dict(o="children", obj="node", filt=True),
    ("Node", "child_edge_iter"): dict(o="children", obj="edge", filt=True),
    ("Node", "ancestor_iter"): dict(o="ancestors", obj="node", filt=True, kws=[{}, {"inclusive": True}, {"inclusive": False}]),
    ("Node", "ageorder_iter"): dict(o="age", obj="node", filt=True, kws=AGE, layer="age"),
    ("Node", "age_order_iter"): dict(o="age", obj="node", filt=True, kws=AGE[:2], layer="age", dep=True),
    ("Tree", "preorder_node_iter"): dict(o="pre", obj="node", filt=True),
    ("Tree", "__iter__"): dict(o="pre", obj="node", filt=False),
    ("Tree", "postorder_node_iter"): dict(o="post", obj="node", filt=True),
    ("Tree", "levelorder_node_iter"): dict(o="level", obj="node", filt=True),
    ("Tree", "level_order_node_iter"): dict(o="level", obj="node", filt=True, dep=True),
    ("Tree", "inorder_node_iter"): dict(o="in", obj="node", filt=True),
    ("Tree", "leaf_node_iter"): dict(o="leaf", obj="node", filt=True),
    ("Tree", "leaf_iter"): dict(o="leaf", obj="node", filt=True, dep=True),
    ("Tree", "preorder_internal_node_iter"): dict(o="pre_int", obj="node", filt=True, kws=EX_N),
    ("Tree", "postorder_internal_node_iter"): dict(o="post_int", obj="node", filt=True, kws=EX_N),
    ("Tree", "nodes"): dict(o="set:all", obj="node", filt=True),
    ("Tree", "leaf_nodes"): dict(o="set:leaf", obj="node", filt=False),
    ("Tree", "internal_nodes"): dict(o="set:int", obj="node", filt=False, kws=EX_N),
    ("Tree", "preorder_edge_iter"): dict(o="pre", obj="edge", filt=True, cp="preorder_node_iter"),
    ("Tree", "postorder_edge_iter"): dict(o="post", obj="edge", filt=True, cp="postorder_node_iter"),
    ("Tree", "levelorder_edge_iter"): dict(o="level", obj="edge", filt=True, cp="levelorder_node_iter"),
    ("Tree", "level_order_edge_iter"): dict(o="level", obj="edge", filt=True, cp="levelorder_node_iter", dep=True),
    ("Tree", "inorder_edge_iter"): dict(o="in", obj="edge", filt=True, cp="inorder_node_iter"),
    ("Tree", "leaf_edge_iter"): dict(o="leaf", obj="edge", filt=True, cp="leaf_node_iter"),
    ("Tree", "preorder_internal_edge_iter"): dict(o="pre_int", obj="edge", filt=True, kws=EX_E, cp="preorder_internal_node_iter"),
    ("Tree", "postorder_internal_edge_iter"): dict(o="post_int", obj="edge", filt=True, kws=EX_E, cp="postorder_internal_node_iter"),
    ("Tree", "edges"): dict(o="set:all", obj="edge", filt=True, cp="nodes"),
    ("Tree", "leaf_edges"): dict(o="set:leaf", obj="edge", filt=False, cp="leaf_nodes"),
    ("Tree", "internal_edges"): dict(o="set:int", obj="edge", filt=False, kws=EX_E, cp="internal_nodes"),
    ("Tree", "ageorder_node_iter"): dict(o="age", obj="node", filt=True, kws=AGE, layer="age"),
    ("Tree", "age_order_node_iter"): dict(o="age", obj="node", filt=True, kws=AGE[:2], layer="age", dep=True),
}
ITER_KINDS = [k for k in SPECS if SPECS[k].get("layer") != "age"]
AGE_KINDS = [k for k in SPECS if SPECS[k].get("layer") == "age"]


def counterpart_kwargs(kwargs):
    return dict(("exclude_seed_node" if k == "exclude_seed_edge" else k, v) for k, v in kwargs.items())


_quiet = [False]


def invoke(env, target, start, meth, kwargs, S):
    """one library call -> ("ok", [pre-order indices]) or (problem tag, detail)"""
    if not _quiet[0]:
        # the library installs its own warning filter on first use; let it do so before we silence the aliases
        deprecate._initialize_deprecation_warnings()
        _quiet[0] = True
    spec = SPECS[(target, meth)]
    obj = env.tree if target == "Tree" else env.nodes[start]
    idmap = env.eid if spec["obj"] == "edge" else env.nid
    kw = dict(kwargs)
    if S is not None:
        kw["filter_fn"] = predicate(idmap, S)
    cap = 3 * env.n + 8
    try:
        if spec.get("dep"):
            with warnings.catch_warnings():
                warnings.simplefilter("ignore")
                got = list(itertools.islice(iter(getattr(obj, meth)(**kw)), cap))
        else:
            got = list(itertools.islice(iter(getattr(obj, meth)(**kw)), cap))
    except Foreign as e:
        return ("filter-called-with-foreign-object", "filter_fn was handed a %s that is not %s of the tree" % (
            e, "an edge" if spec["obj"] == "edge" else "a node"))
    except Exception as e:
        return ("exception:%s" % type(e).__name__, repr(e))
    if len(got) >= cap:
        return ("unbounded", "more than %d items yielded on a tree of %d nodes" % (cap, env.n))
    out = []
    for x in got:
        i = idmap.get(id(x))
        if i is None:
            return ("foreign-object-yielded", "yielded a %s that is not %s of the tree" % (
                type(x).__name__, "an edge" if spec["obj"] == "edge" else "a node"))
        out.append(i)
    return ("ok", out)


def expected_members(env, o, s, kwargs):
    if o in ("pre", "post", "level", "in", "set:all"):
        return env.pre(s)
    if o in ("leaf", "set:leaf"):
        return env.leaves(s)
    if o in ("pre_int", "post_int", "set:int"):
        ex = kwargs.get("exclude_seed_node") or kwargs.get("exclude_seed_edge")
        return [i for i in env.pre(s) if not env.leaf[i] and not (ex and i == 0)]
    if o == "age":
        return [i for i in env.pre(s) if kwargs.get("include_leaves", True) or not env.leaf[i]]
    if o == "children":
        return list(env.ch[s])
    if o == "ancestors":
        return ([s] if kwargs.get("inclusive") else []) + env.ancestors(s)
    raise ValueError(o)


def order_problem(env, o, s, kwargs, got):
    """None, or (tag, text): the statement's demand on an unfiltered traversal"""
    exp = expected_members(env, o, s, kwargs)
    if sorted(got) != sorted(exp):
        return ("not-each-once", "visited %s, the members are %s" % (got, exp))
    pos = dict((x, k) for k, x in enumerate(got))
    if o in ("pre", "in", "leaf", "pre_int"):
        want = env.inorder(s) if o == "in" else exp
        if got != want:
            return ("order", "visited %s, defining order is %s" % (got, want))
    elif o in ("post", "post_int"):
        for x in got:
            p = env.par[x]
            if p in pos and pos[p] < pos[x]:
                return ("order", "visited %s: parent %d before its child %d" % (got, p, x))
    elif o == "level":
        d = [env.dep[x] for x in got]
        if any(d[k] > d[k + 1] for k in range(len(d) - 1)):
            return ("order", "visited %s with depths %s (not non-decreasing)" % (got, d))
    elif o == "age":
        a = [env.h[x] for x in got]
        if kwargs.get("descending"):
            a = a[::-1]
        if any(a[k] > a[k + 1] for k in range(len(a) - 1)):
            return ("order", "visited %s with ages %s, descending=%r" % (got, [env.h[x] for x in got], bool(kwargs.get("descending"))))
    return None


def signature(target, start, meth, kwargs, tag):
    parts = ["%s.%s" % (target, meth)]
    for k in ("exclude_seed_node", "exclude_seed_edge"):
        if kwargs.get(k):
            parts.append(k)
    if target == "Node" and start:
        parts.append("non-seed-start")
    parts.append(tag)
    return "|".join(parts)


def make_case(env, target, start, meth, kwargs, fdesc, heights=None, ages_set=False, **extra):
    c = dict(tree_fields(env), target=target, start=start, meth=meth, kwargs=dict(kwargs), filter=fdesc)
    if heights is not None:
        c["heights"] = list(heights)
        c["ages_set"] = ages_set
    c.update(extra)
    return c


def base_result(env, target, start, meth, kwargs):
    key = (target, start, meth, tuple(sorted(kwargs.items())))
    r = env._base.get(key)
    if r is None:
        r = invoke(env, target, start, meth, kwargs, None)
        env._base[key] = r
    return r


def check(env, ctx, target, start, meth, kwargs, fdesc, meta=None):
    """ONE (iterator call, filter) case: run it and judge it."""
    spec = SPECS[(target, meth)]
    meta = meta or {}
    s = 0 if start is None else start

    def report(tag, text):
        ctx.violation(signature(target, start, meth, kwargs, tag),
                      clip("%s.%s(%s) from %s on %s, filter %s: %s" % (
                          target, meth, ", ".join("%s=%r" % kv for kv in sorted(kwargs.items())),
                          "the tree" if start is None else "node #%d" % start, show(env), fdesc, text), env),
                      make_case(env, target, start, meth, kwargs, fdesc, **meta))

    ctx.count("iterator_calls")
    st, base = base_result(env, target, start, meth, kwargs)
    if fdesc is None:
        if st != "ok":
            report(st, base)
            return
        prob = order_problem(env, spec["o"], s, kwargs, base)
        if prob:
            report(prob[0], prob[1])
            return
        got, S = base, None
    else:
        if st != "ok" or order_problem(env, spec["o"], s, kwargs, base):
            return      # the unfiltered traversal is reported on its own
        S = filter_set(env, fdesc)
        ctx.count("filtered_calls")
        st2, got = invoke(env, target, start, meth, kwargs, S)
        if st2 != "ok":
            report("filtered|" + st2, got)
            return
        want = [x for x in base if x in S]
        if got != want:
            report("filtered-not-the-passing-subsequence", "yielded %s, unfiltered order %s, filter passes %s -> %s" % (
                got, base, sorted(S), want))
            return
    if spec.get("cp"):
        ctx.count("edge_vs_node_comparisons")
        st3, ngot = invoke(env, "Tree", None, spec["cp"], counterpart_kwargs(kwargs), S)
        if st3 == "ok":
            same = (sorted(got) == sorted(ngot)) if spec["o"].startswith("set:") else (got == ngot)
            if not same:
                report("differs-from-node-counterpart", "edges of nodes %s, %s yields nodes %s" % (got, spec["cp"], ngot))


CB_SUBSETS = [(b, l, a) for b in (True, False) for l in (True, False) for a in (True, False)]


def check_apply(env, ctx, target, start, cbs, positional=False):
    s = 0 if start is None else start
    obj = env.tree if target == "Tree" else env.nodes[start]
    trace = []

    def mk(kind):
        def f(nd):
            trace.append((kind, env.nid.get(id(nd), -1)))
        return f
    kw = {}
    if cbs[0]:
        kw["before_fn"] = mk("before")
    if cbs[1]:
        kw["leaf_fn"] = mk("leaf")
    if cbs[2]:
        kw["after_fn"] = mk("after")
    case = dict(tree_fields(env), target=target, start=start, meth="apply", cbs=list(cbs), positional=positional)
    ctx.count("apply_traces")
    try:
        if positional:
            obj.apply(kw.get("before_fn"), kw.get("after_fn"), kw.get("leaf_fn"))
        else:
            obj.apply(**kw)
    except Exception as e:
        ctx.violation(signature(target, start, "apply", {}, "exception:%s" % type(e).__name__), repr(e), case)
        return
    present = set(k for k, on in zip(("before", "leaf", "after"), cbs) if on)
    want = [ev for ev in env.brackets(s) if ev[0] in present]
    if trace != want:
        inside = set(env.pre(s))
        if any(i not in inside for _, i in trace):
            tag = "callbacks-on-nodes-outside-the-subtree"
        else:
            tag = "trace-not-the-bracket-sequence"
        ctx.violation(signature(target, start, "apply", {}, tag),
                      clip("%s.apply from %s on %s with callbacks %s: trace %s, bracket sequence %s" % (
                          target, "the tree" if start is None else "node #%d" % start, show(env), sorted(present), trace, want), env),
                      case)


def check_len(env, ctx):
    ctx.count("len_calls")
    case = dict(tree_fields(env), target="Tree", start=None, meth="__len__")
    try:
        got = len(env.tree)
    except Exception as e:
        ctx.violation("Tree.__len__|exception:%s" % type(e).__name__, repr(e), case)
        return
    want = len(env.leaves(0))
    if got != want:
        ctx.violation("Tree.__len__|not-the-number-of-leaves", "len(tree)=%r on %s with %d leaves" % (got, show(env), want), case)


def check_unchanged(env, ctx, what):
    if not env.unchanged():
        ctx.violation("traversal-mutated-the-tree|%s" % what, "after the %s traversals %s reads %s" % (
            what, show(env), ref.to_newick(ref.snapshot(env.tree)[1])[:600]),
            dict(tree_fields(env), meth="__unchanged__", layer=what))


# ---------------------------------------------------------------------------
# enumeration

def domain_ok(env, spec, s):
    if spec["o"] == "in":
        return env.is_binary(s)
    return True


def run_tree_iter(pt, ctx, b):
    env = Env(pt)
    nontriv = env.n >= 3
    for target, starts in (("Tree", [None]), ("Node", list(range(env.n)))):
        for start in starts:
            s = 0 if start is None else start
            fam = family(env, start, b)
            ctx.count("filter_families")
            ctx.count("filters_in_families", len(fam))
            ctx.maximum("largest_filter_family", len(fam))
            for (tg, meth) in ITER_KINDS:
                if tg != target:
                    continue
                spec = SPECS[(tg, meth)]
                if not domain_ok(env, spec, s):
                    continue
                ncalls = 0
                for kwargs in spec.get("kws", [{}]):
                    fl = [None]
                    if spec["filt"]:
                        fl = fl + (ALIAS_FILTERS if spec.get("dep") else fam)
                    for fd in fl:
                        check(env, ctx, target, start, meth, kwargs, fd)
                    ncalls += len(fl)
                ctx.case((pt, target, start, meth), nontrivial=nontriv, n=ncalls)
            for cbs in CB_SUBSETS:
                check_apply(env, ctx, target, start, cbs)
            check_apply(env, ctx, target, start, (True, True, True), positional=True)
            ctx.case((pt, target, start, "apply"), nontrivial=nontriv, n=len(CB_SUBSETS) + 1)
            ctx.count("starts")
    check_len(env, ctx)
    ctx.case((pt, "Tree", None, "__len__"), nontrivial=nontriv)
    check_unchanged(env, ctx, "iter")
    ctx.count("trees")
    ctx.maximum("max_nodes", env.n)
    ctx.maximum("max_leaves", len(env.leaf_ids))
    ctx.maximum("max_out_degree", max(len(c) for c in env.ch))
    ctx.maximum("max_depth", max(env.dep))
    if not any(len(c) == 1 for c in env.ch):
        ctx.count("trees_without_unifurcations")
    if env.n > 1 and len(env.ch[0]) == 1:
        ctx.count("trees_with_unifurcating_seed")


EXACT_AGE_KINDS = ("int53", "fraction", "int-float-mix")


def set_exact_ages(env, kind, ks):
    """exact non-float ages, assigned directly to node.age (the attribute Node.ageorder_iter documents it reads):
    they differ by less than double precision, so only exact comparison orders them"""
    import fractions
    vals = []
    for k in ks:
        if kind == "int53":
            v = 2 ** 53 + k
        elif kind == "fraction":
            v = fractions.Fraction(1, 3) + k * fractions.Fraction(1, 10 ** 30)
        elif kind == "int-float-mix":
            v = float(2 ** 53 + k) if k % 2 == 0 else 2 ** 53 + k      # even offsets are exact doubles
        else:
            raise ValueError(kind)
        vals.append(v)
    env.h = vals                 # the oracle compares these objects themselves (exact int / Fraction / float comparison)
    for nd, v in zip(env.nodes, vals):
        nd.age = v


def run_exact_ages(pt, ctx, b):
    n = len(Env(pt).nodes)
    for kind in EXACT_AGE_KINDS:
        for ks in itertools.permutations(range(n)):
            env = Env(pt, set_ages=True)
            set_exact_ages(env, kind, ks)
            meta = {"exact_ages": [kind, list(ks)]}
            ctx.count("exact_nonfloat_age_patterns")
            for target, starts in (("Tree", [None]), ("Node", list(range(n)))):
                for start in starts:
                    fam = family(env, start, b, reduced=True)
                    for (tg, meth) in AGE_KINDS:
                        if tg != target:
                            continue
                        spec = SPECS[(tg, meth)]
                        ncalls = 0
                        for kwargs in spec["kws"]:
                            fl = [None] + (ALIAS_FILTERS if spec.get("dep") else fam)
                            for fd in fl:
                                check(env, ctx, target, start, meth, kwargs, fd, meta)
                            ncalls += len(fl)
                        ctx.case((pt, ("exact", kind, ks), target, start, meth), nontrivial=n >= 2, n=ncalls)


def run_tree_age(pt, ctx, b):
    probe = Env(pt)
    if probe.n <= b["exact_nonfloat_ages_up_to_nodes"]:
        run_exact_ages(pt, ctx, b)
    pats, full = height_patterns(probe, b)
    nontriv = probe.n >= 3
    if full:
        ctx.count("trees_with_all_height_patterns")
    for h in pats:
        ctx.count("age_patterns")
        # Node level: ages given by the harness; Tree level: the library computes them on a fresh tree
        for target, starts, set_ages in (("Tree", [None], False), ("Node", None, True)):
            env = Env(pt, h, set_ages=set_ages)
            meta = {"heights": h, "ages_set": set_ages}
            for start in (starts if starts is not None else range(env.n)):
                fam = family(env, start, b, reduced=(target == "Node" and start != 0))
                for (tg, meth) in AGE_KINDS:
                    if tg != target:
                        continue
                    spec = SPECS[(tg, meth)]
                    ncalls = 0
                    for kwargs in spec["kws"]:
                        fl = [None] + (ALIAS_FILTERS if spec.get("dep") else fam)
                        for fd in fl:
                            check(env, ctx, target, start, meth, kwargs, fd, meta)
                        ncalls += len(fl)
                    ctx.case((pt, tuple(h), target, start, meth), nontrivial=nontriv, n=ncalls)
            check_unchanged(env, ctx, "age")
    ctx.count("age_trees")


# ---------------------------------------------------------------------------
# 'state between calls' layer: sequences of calls on the small universe.  Every
# scenario is a self-contained, JSON-able descriptor `sc`; run_state_tree() runs all
# scenarios of one tree on shared objects (hidden library state is what is being
# hunted), replay() re-runs one scenario from scratch.

class Abort(Exception):
    pass


class Relabel(object):
    """a Ctx view that files every violation under <prefix><signature><suffix> with the scenario as its case"""

    def __init__(self, ctx, prefix, suffix, sc):
        self.ctx, self.prefix, self.suffix, self.sc = ctx, prefix, suffix, sc
        self.counters = ctx.counters

    def violation(self, sig, message, case):
        self.ctx.violation(self.prefix + sig + self.suffix, "[%s] %s" % (sc_text(self.sc), message),
                           {"meth": "__state__", "sc": self.sc})

    def count(self, name, n=1):
        self.ctx.count(name, n)

    def case(self, *a, **k):
        self.ctx.case(*a, **k)

    def maximum(self, name, v):
        self.ctx.maximum(name, v)

    def sample(self, obj, limit=4):
        self.ctx.sample(obj, limit)


def sc_text(sc):
    return ", ".join("%s=%s" % (k, pt_str(tup(v)) if k == "tree" else v) for k, v in sorted(sc.items()))


PARTNER_PT = (((), ()), ((),), ())

# iterator families driven in the abandon / interleave / edit scenarios: (target, method, kwargs, start rule)
FAMS = [
    ("Node", "preorder_iter", {}, "seed"),
    ("Node", "postorder_iter", {}, "seed"),
    ("Node", "levelorder_iter", {}, "seed"),
    ("Node", "inorder_iter", {}, "seed"),
    ("Node", "leaf_iter", {}, "seed"),
    ("Node", "preorder_internal_node_iter", {}, "seed"),
    ("Node", "postorder_internal_node_iter", {"exclude_seed_node": True}, "seed"),
    ("Node", "ageorder_iter", {}, "seed"),
    ("Node", "child_node_iter", {}, "seed"),
    ("Node", "ancestor_iter", {"inclusive": True}, "last"),
    ("Tree", "preorder_edge_iter", {}, None),
    ("Tree", "postorder_edge_iter", {}, None),
    ("Tree", "levelorder_edge_iter", {}, None),
    ("Tree", "inorder_edge_iter", {}, None),
    ("Tree", "leaf_edge_iter", {}, None),
    ("Tree", "preorder_internal_edge_iter", {"exclude_seed_edge": True}, None),
    ("Tree", "postorder_internal_edge_iter", {}, None),
    ("Tree", "ageorder_node_iter", {"descending": True}, None),
]


def fam_name(f):
    return "%s.%s" % (f[0], f[1])


def fam_start(env, f):
    if f[0] == "Tree":
        return None
    return env.n - 1 if f[3] == "last" else 0


def fam_ok(env, f):
    return domain_ok(env, SPECS[(f[0], f[1])], 0)


def fam_iter(env, f):
    obj = env.tree if f[0] == "Tree" else env.nodes[fam_start(env, f)]
    return iter(getattr(obj, f[1])(**f[2]))


def fam_judge(env, f, objs):
    """(tag, text) or None for the complete output `objs` of family f"""
    spec = SPECS[(f[0], f[1])]
    idmap = env.eid if spec["obj"] == "edge" else env.nid
    got = []
    for x in objs:
        i = idmap.get(id(x))
        if i is None:
            return ("foreign-object-yielded", "yielded a %s that is not of the tree" % type(x).__name__)
        got.append(i)
    s = fam_start(env, f)
    return order_problem(env, spec["o"], 0 if s is None else s, f[2], got)


def fam_check(env, ctx, f):
    """a fresh complete run of family f, judged by the ordinary check"""
    env._base = {}
    check(env, ctx, f[0], fam_start(env, f), f[1], f[2], None)


def render(env):
    def rec(i):
        s = ""
        if env.ch[i]:
            s = "(" + ",".join(rec(c) for c in env.ch[i]) + ")n%d" % i
        else:
            s = "t%d" % env.leaf_ids.index(i)
        if env.par[i] is not None:
            s += ":%d" % (env.h[env.par[i]] - env.h[i])
        return s
    return rec(0) + ";\n"


def check_newick(env, ctx):
    ctx.count("newick_writes")
    try:
        got = env.tree.as_string("newick", suppress_rooting=True)
    except Exception as e:
        ctx.violation("Tree.as_string(newick)|exception:%s" % type(e).__name__, repr(e), None)
        return
    want = render(env)
    if got != want:
        ctx.violation("Tree.as_string(newick)|not-the-bracket-rendering", "wrote %r, the tree is %r" % (got, want),
                      dict(tree_fields(env), meth="__newick__"))


def traced_apply(env, start, on_event):
    """run (Tree|Node).apply with all three callbacks; on_event(index) is called after event `index` was recorded.
    Returns (trace, exception or None)."""
    obj = env.tree if start is None else env.nodes[start]
    trace = []

    def mk(kind):
        def f(nd):
            trace.append((kind, env.nid.get(id(nd), -1)))
            on_event(len(trace) - 1)
        return f
    try:
        obj.apply(before_fn=mk("before"), after_fn=mk("after"), leaf_fn=mk("leaf"))
    except Exception as e:
        return trace, e
    return trace, None


SECONDS = ("apply-same", "apply-other", "newick-same")


def second_call(which, env, partner, rctx):
    if which == "apply-same":
        check_apply(env, rctx, "Tree", None, (True, True, True))
    elif which == "apply-other":
        check_apply(partner, rctx, "Node", 0, (True, True, True))
    elif which == "newick-same":
        check_newick(env, rctx)
    else:
        raise ValueError(which)


def where_of(which):
    return "|other-tree" if which.endswith("other") else "|same-tree"


def sc_abort(sc, env, partner, ctx):
    """an apply() / Newick write whose callback fails at event k, then a normal second call"""
    k, start = sc["k"], sc.get("start")
    if sc["first"] == "apply":
        first = "%s.apply" % ("Tree" if start is None else "Node")

        def boom(i):
            if i == k:
                raise Abort()
        trace, exc = traced_apply(env, start, boom)
        want = env.brackets(0 if start is None else start)[:k + 1]
        if isinstance(exc, Abort) and trace != want:
            ctx.violation("aborted-call|%s|events-before-the-failure-not-a-prefix-of-the-bracket-sequence" % first,
                          "[%s] trace %s, prefix %s" % (sc_text(sc), trace, want), {"meth": "__state__", "sc": sc})
    else:
        first = "as_string(newick)"
        calls = [0]

        def compose(nd):
            calls[0] += 1
            if calls[0] > k:
                raise Abort()
            return "x"
        try:
            env.tree.as_string("newick", suppress_rooting=True, node_label_compose_fn=compose)
        except Abort:
            pass
        except Exception:
            pass
    ctx.count("aborted_first_calls")
    rctx = Relabel(ctx, "after-aborted-call|%s->" % first, where_of(sc["second"]), sc)
    second_call(sc["second"], env, partner, rctx)


def sc_reentrant(sc, env, partner, ctx):
    """a callback of Tree.apply that itself runs a complete apply / Newick write at event k"""
    k = sc["k"]
    rin = Relabel(ctx, "reentrant|Tree.apply>", "|inner" + where_of(sc["inner"]), sc)

    def nested(i):
        if i == k:
            second_call(sc["inner"], env, partner, rin)
    trace, exc = traced_apply(env, None, nested)
    ctx.count("reentrant_calls")
    case = {"meth": "__state__", "sc": sc}
    name = {"apply-same": "Tree.apply", "apply-other": "Node.apply", "newick-same": "as_string(newick)"}[sc["inner"]]
    if exc is not None:
        ctx.violation("reentrant|Tree.apply>%s|outer|exception:%s" % (name, type(exc).__name__), "[%s] %r" % (sc_text(sc), exc), case)
    elif trace != env.brackets(0):
        ctx.violation("reentrant|Tree.apply>%s|outer|trace-not-the-bracket-sequence%s" % (name, where_of(sc["inner"])),
                      "[%s] outer trace %s, bracket sequence %s" % (sc_text(sc), trace, env.brackets(0)), case)


def sc_abandon(sc, env, partner, ctx):
    """an iterator of family F consumed for k items and abandoned (left suspended, or closed), then a fresh complete
    run of family G on the same tree / of F on another tree; a suspended F is then resumed to its end"""
    F, G = FAMS[sc["F"]], FAMS[sc["G"]]
    k = sc["k"]
    case = {"meth": "__state__", "sc": sc}
    try:
        it = fam_iter(env, F)
        head = list(itertools.islice(it, k))
    except Exception as e:
        ctx.violation("abandoned-iterator|%s|exception:%s" % (fam_name(F), type(e).__name__), "[%s] %r" % (sc_text(sc), e), case)
        return
    if sc["mode"] == "closed":
        if hasattr(it, "close"):
            it.close()
        it = None
    ctx.count("abandoned_iterators")
    other = sc["where"] == "other"
    rctx = Relabel(ctx, "after-abandoned-iterator|%s->" % fam_name(F), "|%s|%s" % ("other-tree" if other else "same-tree", sc["mode"]), sc)
    fam_check(partner if other else env, rctx, G)
    if it is not None:
        try:
            full = head + list(itertools.islice(it, 3 * env.n + 8))
        except Exception as e:
            ctx.violation("after-abandoned-iterator|%s->%s|resumed-first|exception:%s" % (fam_name(F), fam_name(G), type(e).__name__),
                          "[%s] %r" % (sc_text(sc), e), case)
            return
        prob = fam_judge(env, F, full)
        if prob:
            ctx.violation("after-abandoned-iterator|%s->%s|resumed-first|%s" % (fam_name(F), fam_name(G), prob[0]),
                          "[%s] %s" % (sc_text(sc), prob[1]), case)


def step_pattern(env, A, B, pattern):
    """advance two iterators according to `pattern` ('alt' or a string of A/B steps); returns the two outputs"""
    its = {"A": fam_iter(env, A), "B": fam_iter(env, B)}
    out = {"A": [], "B": []}
    done = {"A": False, "B": False}
    cap = 3 * env.n + 8

    def step(w):
        if done[w]:
            return
        try:
            out[w].append(next(its[w]))
            if len(out[w]) > cap:
                done[w] = True
        except StopIteration:
            done[w] = True
    if pattern == "alt":
        while not (done["A"] and done["B"]):
            step("A")
            step("B")
    else:
        for w in pattern:
            step(w)
        while not (done["A"] and done["B"]):     # whatever the pattern left unfinished
            step("A")
            step("B")
    return out["A"], out["B"]


def sc_interleave(sc, env, partner, ctx):
    A, B = FAMS[sc["A"]], FAMS[sc["B"]]
    case = {"meth": "__state__", "sc": sc}
    name = "%sx%s" % (fam_name(A), fam_name(B))
    ctx.count("interleavings")
    try:
        ga, gb = step_pattern(env, A, B, sc["pattern"])
    except Exception as e:
        ctx.violation("interleaved|%s|exception:%s" % (name, type(e).__name__), "[%s] %r" % (sc_text(sc), e), case)
        return
    for which, f, got in (("first", A, ga), ("second", B, gb)):
        prob = fam_judge(env, f, got)
        if prob:
            ctx.violation("interleaved|%s|%s|%s" % (name, which, prob[0]), "[%s] %s: %s" % (sc_text(sc), fam_name(f), prob[1]), case)


EDIT_OPS = ("new_child", "insert_new_child_0", "remove_child", "reseed_at", "reroot_at_node")


def edits_of(env):
    out = []
    for x in range(env.n):
        out.append(["new_child", x])
        if not env.leaf[x]:
            out.append(["insert_new_child_0", x])
        if x:
            out.append(["remove_child", x])
            if not env.leaf[x]:
                out.append(["reseed_at", x])
                out.append(["reroot_at_node", x])
    return out


def sc_edit(sc, env_unused, partner_unused, ctx):
    """complete runs of everything; a structural edit through the public API; complete runs again, judged against the
    structure re-read from the primitive links (a cached visiting order would now be stale)"""
    env = Env(tup(sc["tree"]), set_ages=True)
    op, x = sc["edit"]
    for f in FAMS:
        if fam_ok(env, f):
            list(fam_iter(env, f))
    env.tree.apply(lambda n: None, lambda n: None, lambda n: None)
    len(env.tree)
    env.tree.nodes(), env.tree.leaf_nodes(), env.tree.internal_nodes(), env.tree.edges()
    nd = env.nodes[x]
    try:
        if op == "new_child":
            nd.new_child()
        elif op == "insert_new_child_0":
            nd.insert_new_child(0)
        elif op == "remove_child":
            nd._parent_node.remove_child(nd)
        elif op == "reseed_at":
            env.tree.reseed_at(nd, suppress_unifurcations=False, collapse_unrooted_basal_bifurcation=False)
        elif op == "reroot_at_node":
            env.tree.reroot_at_node(nd)
        else:
            raise ValueError(op)
    except ValueError:
        raise
    except Exception:
        ctx.count("edits_that_raised (not judged here)")
        return
    if ref.wellformed(env.tree):
        ctx.count("edits_leaving_a_malformed_tree (not judged here)")
        return
    env2 = Env(live_pt(env.tree), live=env.tree)
    ctx.count("structural_edits")
    rctx = Relabel(ctx, "after-structural-edit|%s->" % op, "", sc)
    for (tg, meth) in ITER_KINDS:
        spec = SPECS[(tg, meth)]
        if not domain_ok(env2, spec, 0):
            continue
        for kwargs in spec.get("kws", [{}]):
            check(env2, rctx, tg, None if tg == "Tree" else 0, meth, kwargs, None)
    check_apply(env2, rctx, "Tree", None, (True, True, True))
    check_apply(env2, rctx, "Node", 0, (True, True, True))
    check_len(env2, rctx)


SCENARIOS = {"abort": sc_abort, "reentrant": sc_reentrant, "abandon": sc_abandon, "interleave": sc_interleave, "edit": sc_edit}


def all_patterns(la, lb):
    """every order of la A-steps and lb B-steps"""
    out = []
    for pos in itertools.combinations(range(la + lb), la):
        p = ["B"] * (la + lb)
        for i in pos:
            p[i] = "A"
        out.append("".join(p))
    return out


def run_state_tree(pt, ctx, b):
    sb = b["state_between_calls"]
    env = Env(pt, set_ages=True)
    partner = Env(PARTNER_PT, set_ages=True)
    n = env.n
    check_newick(env, ctx)
    # (1) aborted apply / Newick write, then a second call; re-entrant apply
    if n <= sb["aborted_and_reentrant_apply_max_nodes"]:
        starts = [None] + (list(range(1, n)) if n <= sb["aborted_apply_from_subtree_starts_max_nodes"] else [])
        for start in starts:
            for k in range(len(env.brackets(0 if start is None else start))):
                for second in SECONDS:
                    sc_abort({"kind": "abort", "tree": pt, "first": "apply", "start": start, "k": k, "second": second}, env, partner, ctx)
                ctx.case((pt, "abort", "apply", start, k), nontrivial=n >= 3, n=len(SECONDS))
        for k in range(n):
            for second in SECONDS:
                sc_abort({"kind": "abort", "tree": pt, "first": "newick", "start": None, "k": k, "second": second}, env, partner, ctx)
            ctx.case((pt, "abort", "newick", k), nontrivial=n >= 3, n=len(SECONDS))
        inners = SECONDS if n <= sb["reentrant_newick_max_nodes"] else SECONDS[:2]
        for k in range(len(env.brackets(0))):
            for inner in inners:
                sc_reentrant({"kind": "reentrant", "tree": pt, "k": k, "inner": inner}, env, partner, ctx)
            ctx.case((pt, "reentrant", k), nontrivial=n >= 3, n=len(inners))
    fams = [i for i, f in enumerate(FAMS) if fam_ok(env, f)]
    # (2) abandoned iterators, then fresh complete runs
    if n <= sb["abandoned_iterator_max_nodes"]:
        for fi in fams:
            F = FAMS[fi]
            s = fam_start(env, F)
            total = len(expected_members(env, SPECS[(F[0], F[1])]["o"], 0 if s is None else s, F[2]))
            for k in range(total + 1):
                for mode in ("suspended", "closed"):
                    for gi in fams:
                        sc_abandon({"kind": "abandon", "tree": pt, "F": fi, "k": k, "mode": mode, "G": gi, "where": "same"}, env, partner, ctx)
                    if fam_ok(partner, F):
                        sc_abandon({"kind": "abandon", "tree": pt, "F": fi, "k": k, "mode": mode, "G": fi, "where": "other"}, env, partner, ctx)
                    ctx.case((pt, "abandon", fi, k, mode), nontrivial=n >= 3, n=len(fams) + 1)
    # two iterators advanced in turn
    if n <= sb["interleaved_alternating_max_nodes"]:
        for ai in fams:
            for bi in fams:
                pats = ["alt"]
                if n <= sb["interleaved_all_patterns_max_nodes"]:
                    A, B = FAMS[ai], FAMS[bi]
                    sa, sb_ = fam_start(env, A), fam_start(env, B)
                    la = len(expected_members(env, SPECS[(A[0], A[1])]["o"], 0 if sa is None else sa, A[2])) + 1
                    lb = len(expected_members(env, SPECS[(B[0], B[1])]["o"], 0 if sb_ is None else sb_, B[2])) + 1
                    pats = all_patterns(la, lb)
                    ctx.count("iterator_pairs_with_all_interleavings")
                for pat in pats:
                    sc_interleave({"kind": "interleave", "tree": pt, "A": ai, "B": bi, "pattern": pat}, env, partner, ctx)
                ctx.case((pt, "interleave", ai, bi), nontrivial=n >= 3, n=len(pats))
    check_unchanged(env, ctx, "state")
    # (3) iterate, edit the structure, iterate
    if n <= sb["structural_edit_max_nodes"]:
        for ed in edits_of(env):
            sc_edit({"kind": "edit", "tree": pt, "edit": ed}, None, None, ctx)
            ctx.case((pt, "edit", ed[0], ed[1]), nontrivial=n >= 2)
    ctx.count("state_trees")


def big_starts(env):
    internals = [i for i in range(env.n) if not env.leaf[i]]
    starts = [0] + list(env.ch[0])
    if internals:
        deepest = max(internals, key=lambda i: (env.dep[i], -i))
        if deepest not in starts:
            starts.append(deepest)
    return starts


def run_big(desc, ctx):
    """one large representative: every iterator kind / flag combination, len, apply from the stated starts, filters BIG_FILTERS"""
    desc = list(desc)
    pt = big_tree(desc)
    kid = ("big",) + tuple(desc)
    env = Env(pt, desc=desc)
    h = default_heights(env)
    env_age_tree = Env(pt, h, set_ages=False, desc=desc)
    env_age_node = Env(pt, h, set_ages=True, desc=desc)
    node_starts = big_starts(env)
    fam = []
    seen = set()
    for d in BIG_FILTERS:
        S = filter_set(env, d)
        if S not in seen:
            seen.add(S)
            fam.append(d)
    for target, starts in (("Tree", [None]), ("Node", node_starts)):
        for start in starts:
            s = 0 if start is None else start
            for (tg, meth), spec in SPECS.items():
                if tg != target or not domain_ok(env, spec, s):
                    continue
                if spec.get("layer") == "age":
                    e = env_age_tree if target == "Tree" else env_age_node
                    meta = {"heights": h, "ages_set": target == "Node"}
                else:
                    e, meta = env, None
                ncalls = 0
                for kwargs in spec.get("kws", [{}]):
                    fl = [None] + ((ALIAS_FILTERS if spec.get("dep") else fam) if spec["filt"] else [])
                    for fd in fl:
                        check(e, ctx, target, start, meth, kwargs, fd, meta)
                    ncalls += len(fl)
                ctx.case((kid, target, start, meth), n=ncalls)
                ctx.count("large_iterator_calls", ncalls)
            for cbs in CB_SUBSETS:
                check_apply(env, ctx, target, start, cbs)
            check_apply(env, ctx, target, start, (True, True, True), positional=True)
            ctx.case((kid, target, start, "apply"), n=len(CB_SUBSETS) + 1)
            ctx.count("large_starts")
    check_len(env, ctx)
    ctx.case((kid, "Tree", None, "__len__"))
    check_unchanged(env, ctx, "iter")
    check_unchanged(env_age_tree, ctx, "age")
    check_unchanged(env_age_node, ctx, "age")
    ctx.count("large_trees")
    ctx.maximum("large_max_nodes", env.n)
    ctx.maximum("large_max_out_degree", max(len(c) for c in env.ch))
    ctx.maximum("large_max_depth", max(env.dep))
    ctx.sample({"large_representative": big_name(desc), "nodes": env.n, "leaves": len(env.leaf_ids),
                "node_starts": len(node_starts), "depth": max(env.dep)}, 1)


def chunk_step(n, layer):
    if n <= 5:
        return 1000
    return {6: 14, 7: 11, 8: 18, 9: 30, 10: 26}.get(n, 20)


def chunks(tier):
    b = bounds(tier)
    out = [{"layer": "big", "desc": d, "tier": tier} for d in big_descriptors()]
    smax = max(v for k, v in b["state_between_calls"].items() if k.endswith("max_nodes"))
    for n in range(smax, 0, -1):
        total = CATALAN[n - 1]
        step = {5: 7, 6: 6, 7: 11, 8: 22, 9: 40, 10: 40}.get(n, 1000)
        for lo in range(0, total, step):
            out.append({"layer": "state", "n": n, "lo": lo, "hi": min(total, lo + step), "tier": tier})
    for n in range(b["max_nodes"], 0, -1):      # big chunks first
        total = CATALAN[n - 1]
        for layer in ("iter", "age"):
            step = chunk_step(n, layer)
            for lo in range(0, total, step):
                out.append({"layer": layer, "n": n, "lo": lo, "hi": min(total, lo + step), "tier": tier})
    return out


def run_chunk(chunk, ctx):
    if chunk["layer"] == "big":
        run_big(chunk["desc"], ctx)
        return None
    b = bounds(chunk["tier"])
    trees = plane_trees(chunk["n"])
    for k in range(chunk["lo"], chunk["hi"]):
        pt = trees[k]
        if chunk["layer"] == "iter":
            run_tree_iter(pt, ctx, b)
        elif chunk["layer"] == "state":
            run_state_tree(pt, ctx, b)
        else:
            run_tree_age(pt, ctx, b)
    if chunk["layer"] == "iter":
        pt = trees[chunk["lo"]]
        env = Env(pt)
        s = env.n // 2
        fd = ["depth", 1]
        ctx.sample({"tree": pt_str(pt), "nodes (numbered in pre-order)": env.n, "starts": env.n + 1,
                    "filters_at_tree_level": len(family(env, None, b)),
                    "library_postorder_from_seed": invoke(env, "Tree", None, "postorder_node_iter", {}, None)[1],
                    "library_levelorder_from_node_%d" % s: invoke(env, "Node", s, "levelorder_iter", {}, None)[1],
                    "library_internal_postorder_edges_without_seed_filter_odd_depth":
                        invoke(env, "Tree", None, "postorder_internal_edge_iter", {"exclude_seed_edge": True}, filter_set(env, fd))[1],
                    "reference_bracket_sequence": ["%s%d" % (k[0], i) for k, i in env.brackets(0)]}, 1)
    return None


def post(tier, auxes, ctx):
    b = bounds(tier)
    want = sum(CATALAN[n - 1] for n in range(1, b["max_nodes"] + 1))
    if ctx.counters.get("trees") != want or ctx.counters.get("age_trees") != want:
        raise RuntimeError("harness: enumerated %r / %r trees, the universe has %d" % (
            ctx.counters.get("trees"), ctx.counters.get("age_trees"), want))
    smax = max(v for k, v in b["state_between_calls"].items() if k.endswith("max_nodes"))
    if ctx.counters.get("state_trees") != sum(CATALAN[n - 1] for n in range(1, smax + 1)):
        raise RuntimeError("harness: %r trees in the state layer" % ctx.counters.get("state_trees"))
    if ctx.counters.get("large_trees") != len(big_descriptors()):
        raise RuntimeError("harness: %r large representatives run, %d are listed" % (
            ctx.counters.get("large_trees"), len(big_descriptors())))


# ---------------------------------------------------------------------------

def replay(case, ctx):
    meth = case["meth"]
    if meth == "__state__":
        sc = dict(case["sc"])
        sc["tree"] = tup(sc["tree"])
        if "edit" in sc:
            sc["edit"] = list(sc["edit"])
        SCENARIOS[sc["kind"]](sc, Env(sc["tree"], set_ages=True), Env(PARTNER_PT, set_ages=True), ctx)
        return
    if meth == "__newick__":
        check_newick(Env(tup(case["tree"]), set_ages=True), ctx)
        return
    desc = case.get("big")
    if desc:
        if meth == "__unchanged__":
            run_big(desc, ctx)
            return
        pt = big_tree(desc)
    else:
        pt = tup(case["tree"])
        if meth == "__unchanged__":
            b = bounds("quick")
            (run_tree_iter if case.get("layer") == "iter" else run_tree_age)(pt, ctx, b)
            return
    env = Env(pt, case.get("heights"), set_ages=bool(case.get("ages_set")), desc=desc)
    if case.get("exact_ages"):
        env = Env(pt, set_ages=True)
        set_exact_ages(env, case["exact_ages"][0], case["exact_ages"][1])
    target, start = case["target"], case["start"]
    if meth == "apply":
        check_apply(env, ctx, target, start, tuple(case["cbs"]), positional=bool(case.get("positional")))
    elif meth == "__len__":
        check_len(env, ctx)
    else:
        meta = {}
        if case.get("exact_ages"):
            meta = {"exact_ages": case["exact_ages"]}
        elif case.get("heights") is not None:
            meta = {"heights": case["heights"], "ages_set": bool(case.get("ages_set"))}
        check(env, ctx, target, start, meth, dict(case.get("kwargs") or {}), case.get("filter"), meta)
