"""Hand-built source documents for C13 (DESIGN 3/C13): Newick, NEXUS and NeXML tree
documents and NEXUS / FASTA / PHYLIP / NeXML character documents, rendered by plain
Python string code from small parameter tuples.  Nothing here calls dendropy (a writer
defect cannot hide a reader difference)."""
import itertools

# (label, token as written in NEXUS/Newick)
LAB_A = [("a", "a"), ("B", "B"), ("c_x", "c_x"), ("d q", "'d q'")]
LAB_B = [("e", "e"), ("F", "F"), ("g_x", "g_x"), ("h q", "'h q'")]

# tree pool over four taxa (indices into the label list); entry 5 uses three taxa only
POOL = [
    ((0, 1), (2, 3)),
    ((0, 2), 1, 3),
    (0, (1, (2, 3))),
    (0, 1, 2, 3),
    (((0, 3), 1), 2),
    ((0, 1), 2),
    ((1, 2), (0, 3)),
]

LAYOUTS_Q = [(1,), (2,), (3,), (1, 1), (2, 1), (1, 2), (1, 1, 1)]


def layouts(max_blocks, max_trees):
    out = []
    for nb in range(1, max_blocks + 1):
        for combo in itertools.product(range(1, max_trees + 1), repeat=nb):
            out.append(tuple(combo))
    return out


SCI = ["0.5", "1e-2", "2.5E+1", "0.125", "3", "1.5e0", "7.0"]


def _len_token(mode, i):
    if mode == "none":
        return None
    if mode == "int":
        return str(i + 1)
    if mode == "sci":
        return SCI[i % len(SCI)]
    if mode == "partial":
        return None if i % 2 else str(i + 1)
    raise ValueError(mode)


def newick_body(shape, tok, lens="int", ilab=True, ncom="none"):
    """Newick text of `shape` (no trailing ';').  tok(i) -> token of taxon i.
    ncom: 'none' | 'plain' | 'meta' | 'both' node-level comments."""
    counter = [0]

    def rec(s, depth):
        i = counter[0]
        counter[0] += 1
        L = _len_token(lens, i)
        if isinstance(s, int):
            out = tok(s)
            if ncom in ("plain", "both") and i % 3 == 1:
                out += "[n%d]" % i          # attached without white space
            if ncom in ("meta", "both") and i % 3 == 2:
                out += " [&lf=%d]" % i
        else:
            kids = [rec(c, depth + 1) for c in s]
            out = "(" + ",".join(kids) + ")"
            if ilab:
                out += "r" if depth == 0 else "i%d" % i
            if ncom in ("plain", "both") and i % 2 == 0:
                out += " [in%d]" % i
            if ncom in ("meta", "both"):
                out += "[&s=%d,p={1,%d}]" % (i, i) if i % 2 else "[&&NHX:q=x%d]" % i
        if L is not None:
            out += ":" + L
        return out
    return rec(shape, 0)


ROOT_PATTERNS = {
    "none": [None],
    "R": ["R"],
    "U": ["U"],
    "mixed": ["R", None, "U"],
    "mixed2": [None, "u", "r"],
}

WEIGHTS = ["1/2", "3", None, "0.25"]


ZERO_WEIGHTS = ["0", "0.0", "0/5"]
ZERO_PATTERNS = ("zero-first", "zero-middle", "zero-last", "zero-all")


def weight_token(k, weights, n=None, zrot=0):
    """weights: False | True (the WEIGHTS cycle) | one of ZERO_PATTERNS (tree(s) at that place carry a
    weight comment whose value is zero, written as 0, 0.0 or 0/5 - rotation zrot -, the others the cycle)"""
    if not weights:
        return None
    if weights in ZERO_PATTERNS:
        n = n or 1
        zero_at = {"zero-first": [0], "zero-middle": [n // 2], "zero-last": [n - 1], "zero-all": list(range(n))}[weights]
        if k in zero_at:
            return ZERO_WEIGHTS[(k + zrot) % len(ZERO_WEIGHTS)]
    return WEIGHTS[k % len(WEIGHTS)]


def tree_prefix(k, rooting, weights, tcom, n=None, zrot=0):
    """comment tokens written between '=' (or statement start) and the '(' of tree k"""
    parts = []
    rp = ROOT_PATTERNS[rooting]
    r = rp[k % len(rp)]
    rt = "[&%s]" % r if r else None
    w = weight_token(k, weights, n, zrot)
    wt = "[&W %s]" % w if w else None
    seq = [rt, wt] if k % 2 == 0 else [wt, rt]
    parts.extend(x for x in seq if x)
    if tcom in ("plain", "both"):
        parts.append("[c%d]" % k)
    if tcom in ("meta", "both"):
        parts.append("[&k=v%d,m=%d]" % (k, k) if k % 2 == 0 else "[&!name=\"n %d\"]" % k)
    return " ".join(parts)


# ---------------------------------------------------------------------------
# Newick

def newick_doc(p):
    """p: dict(n_trees, rooting, weights, com, nl, lens, ilab, semi, shape=None)
    -> (text, blocks)"""
    nl = p.get("nl", "\n")
    stmts = []
    n = p["n_trees"]
    for k in range(n):
        shape = p["shape"] if (p.get("shape") is not None and k == 0) else POOL[(k + p.get("pool_shift", 0)) % len(POOL)]
        labs = LAB_A

        def tok(i, k=k, labs=labs):
            t = labs[i][1]
            if k % 2 == 1 and t == "B":
                t = "b"           # case-insensitive re-use of the same taxon
            return t
        pre = tree_prefix(k, p["rooting"], p["weights"], p["com"], n, p.get("zrot", 0))
        body = newick_body(shape, tok, p["lens"], p["ilab"], p["com"])
        s = (pre + " " if pre else "") + body
        last = k == n - 1
        if not (last and p.get("semi") == "missing"):
            s += ";"
        if p["com"] in ("plain", "both"):
            s += " [after%d]" % k
        if last and p.get("semi") == "double":
            s += ";"
        stmts.append(s)
    text = nl.join(stmts) + (nl if nl != " " else "")
    return text, [n]


# ---------------------------------------------------------------------------
# NEXUS

def _taxa_block(title, labs, nl):
    out = ["BEGIN TAXA;"]
    if title:
        out.append(" TITLE %s;" % title)
    out.append(" DIMENSIONS NTAX=%d;" % len(labs))
    out.append(" TAXLABELS %s;" % " ".join(t for _, t in labs))
    out.append("END;")
    return out


def nexus_doc(p):
    """p: dict(layout, taxa, translate, rooting, weights, com, nl, chars, lens, ilab,
    shape=None) -> (text, blocks).

    taxa:      'none' | 'one' | 'two-same' | 'two-disjoint'
    translate: 'none' | 'perm' | 'alpha' | 'first' | 'first-num'
    chars:     'none' | 'dna-before' | 'std-after'
    """
    nl = p.get("nl", "\n")
    layout = p["layout"]
    taxa = p["taxa"]
    L = ["#NEXUS"]
    com = p["com"]
    if com in ("plain", "both"):
        L.append("[file comment]")
    if taxa == "one":
        L += _taxa_block(None, LAB_A, nl)
    elif taxa == "two-same":
        L += _taxa_block("tx1", LAB_A, nl)
        L += _taxa_block("tx2", LAB_A, nl)
    elif taxa == "two-disjoint":
        L += _taxa_block("tx1", LAB_A, nl)
        L += _taxa_block("tx2", LAB_B, nl)
    if p.get("chars") == "dna-before":
        L += ["BEGIN CHARACTERS;" if taxa == "one" else "BEGIN DATA;"]
        if taxa.startswith("two"):
            L += [" LINK TAXA = tx1;"]
        L += [" DIMENSIONS %sNCHAR=4;" % ("" if taxa == "one" else "NTAX=4 "),
              " FORMAT DATATYPE=DNA GAP=- MISSING=?;", " MATRIX"]
        for (lab, t), seq in zip(LAB_A, ["ACGT", "A-GT", "AC?T", "ACGA"]):
            L.append("  %s %s" % (t, seq))
        L += [" ;", "END;"]
    k = 0
    for bi, nt in enumerate(layout):
        labs = LAB_A
        if com in ("plain", "both") and bi % 2 == 0:
            L.append("[before block %d]" % bi)
        L.append("BEGIN TREES;" if bi % 2 == 0 else "Begin Trees;")
        if taxa.startswith("two"):
            which = bi % 2
            L.append(" TITLE trees%d;" % bi)
            L.append(" LINK TAXA = tx%d;" % (which + 1))
            if taxa == "two-disjoint" and which == 1:
                labs = LAB_B
        tr = p["translate"]
        mode = tr
        if tr in ("first", "first-num"):
            mode = "perm" if bi == 0 else ("num" if (tr == "first-num" and taxa != "none") else "none")
        n = len(labs)
        if mode == "perm":
            table = [(str(j + 1), (j + 1) % n) for j in range(n)]      # token j+1 -> taxon (j+1)%n
        elif mode == "alpha":
            table = [("T%d" % (j + 1), j) for j in range(n)]
        else:
            table = None
        if table:
            L.append(" TRANSLATE")
            for j, (tk, ti) in enumerate(table):
                L.append("  %s %s%s" % (tk, labs[ti][1], "," if j < n - 1 else ";"))
            inv = dict((ti, tk) for tk, ti in table)
        for ti_ in range(nt):
            shape = p["shape"] if (p.get("shape") is not None and k == 0) else POOL[(k + p.get("pool_shift", 0)) % len(POOL)]

            def tok(i, k=k, labs=labs, table=table, mode=mode):
                if table:
                    return inv[i]
                if mode == "num":
                    return str(i + 1)
                t = labs[i][1]
                if k % 2 == 1 and t in ("B", "F"):
                    t = t.lower()
                return t
            pre = tree_prefix(k, p["rooting"], p["weights"], com, sum(layout), p.get("zrot", 0))
            body = newick_body(shape, tok, p["lens"], p["ilab"], com)
            kw = ["TREE", "Tree", "tree"][k % 3]
            name = "t%d" % (k + 1)
            if com in ("plain", "both"):
                head = "%s[pre%d] %s [x%d] %s%s [y%d] =" % ("" if ti_ else "", k, kw, k, "* " if k == 0 else "", name, k)
            else:
                head = "%s %s =" % (kw, name)
            s = " " + head + " " + (pre + " " if pre else "") + body + ";"
            if com in ("plain", "both"):
                s += " [after%d]" % k
            L.append(s)
            k += 1
        L.append("END;" if bi % 2 == 0 else "ENDBLOCK;")
    if p.get("chars") == "std-after":
        L += ["BEGIN CHARACTERS;" if taxa == "one" else "BEGIN DATA;"]
        if taxa.startswith("two"):
            L += [" LINK TAXA = tx1;"]
        L += [" DIMENSIONS %sNCHAR=3;" % ("" if taxa == "one" else "NTAX=4 "),
              " FORMAT DATATYPE=STANDARD SYMBOLS=\"01\" MISSING=?;", " MATRIX"]
        for (lab, t), seq in zip(LAB_A, ["010", "0?1", "110", "(01)11"]):
            L.append("  %s %s" % (t, seq))
        L += [" ;", "END;"]
    text = nl.join(L) + (nl if nl != " " else "")
    return text, list(layout)


# ---------------------------------------------------------------------------
# NeXML

NEXML_HEAD = ('<?xml version="1.0" encoding="ISO-8859-1"?>\n'
              '<nex:nexml version="0.9" xmlns="http://www.nexml.org/2009" '
              'xmlns:xsi="http://www.w3.org/2001/XMLSchema-instance" '
              'xmlns:nex="http://www.nexml.org/2009" '
              'xmlns:xsd="http://www.w3.org/2001/XMLSchema#" '
              'xmlns:dendropy="http://pypi.org/project/DendroPy/">\n')


def _meta(mid, key, val, dt="xsd:string"):
    return '<meta xsi:type="nex:LiteralMeta" property="dendropy:%s" content="%s" datatype="%s" id="%s"/>' % (key, val, dt, mid)


def nexml_tree(tid, k, shape, otu_ids, labs, rooted, lens, ilab, meta, tlabel=True):
    nodes = []
    edges = []
    counter = [0]
    inttree = lens == "int"

    def rec(s, parent, depth):
        i = counter[0]
        counter[0] += 1
        nid = "%sn%d" % (tid, i)
        attrs = ['id="%s"' % nid]
        if isinstance(s, int):
            attrs.append('label="%s"' % labs[s][0])
            attrs.append('otu="%s"' % otu_ids[s])
        elif ilab:
            attrs.append('label="%s"' % ("r" if depth == 0 else "i%d" % i))
        if depth == 0 and rooted:
            attrs.append('root="true"')
        if meta and i % 2 == 0:
            nodes.append("<node %s>%s</node>" % (" ".join(attrs), _meta("%sm%d" % (nid, i), "nk", "v%d" % i)))
        else:
            nodes.append("<node %s/>" % " ".join(attrs))
        L = _len_token(lens, i)
        if parent is None:
            if L is not None and rooted:
                edges.append('<rootedge id="%sre" target="%s" length="%s"/>' % (tid, nid, L))
        else:
            ea = 'id="%se%d" source="%s" target="%s"' % (tid, i, parent, nid)
            if L is not None:
                ea += ' length="%s"' % L
            if meta and i % 3 == 0:
                edges.append("<edge %s>%s</edge>" % (ea, _meta("%sem%d" % (tid, i), "ek", "%d" % i, "xsd:integer")))
            else:
                edges.append("<edge %s/>" % ea)
        if not isinstance(s, int):
            for c in s:
                rec(c, nid, depth + 1)
    rec(shape, None, 0)
    # the reader requires rootedge before/after edges: order is irrelevant to ElementTree
    head = '<tree id="%s"%s xsi:type="nex:%s">' % (tid, ' label="T%d"' % (k + 1) if tlabel else "", "IntTree" if inttree else "FloatTree")
    out = [head]
    if meta:
        out.append(_meta("%smt" % tid, "tk", "tv%d" % k))
        if k % 2:
            out.append(_meta("%smt2" % tid, "num", "%d.5" % k, "xsd:double"))
    out += nodes
    re_ = [e for e in edges if e.startswith("<rootedge")]
    out += re_ + [e for e in edges if not e.startswith("<rootedge")]
    out.append("</tree>")
    return out


def nexml_doc(p):
    """p: dict(layout, otus, rooting, meta, lens, ilab, chars, shape=None)
    otus: 'one' | 'two-same' | 'two-disjoint';  rooting: 'rooted'|'unrooted'|'mixed'"""
    layout = p["layout"]
    L = [NEXML_HEAD.rstrip("\n")]
    if p["meta"]:
        L.append(_meta("topm", "docnote", "x"))
    sets = [("o1", LAB_A)]
    if p["otus"] == "two-same":
        sets.append(("o2", LAB_A))
    elif p["otus"] == "two-disjoint":
        sets.append(("o2", LAB_B))
    for oid, labs in sets:
        L.append('<otus id="%s" label="%s">' % (oid, "taxa_" + oid))
        for j, (lab, _) in enumerate(labs):
            L.append(' <otu id="%s_t%d" label="%s"/>' % (oid, j, lab))
        L.append("</otus>")
    if p.get("chars") == "dna":
        L += nexml_chars("ch1", "o1", LAB_A, "dna")
    k = 0
    for bi, nt in enumerate(layout):
        oid, labs = sets[bi % len(sets)]
        L.append('<trees id="trs%d" label="block%d" otus="%s">' % (bi, bi, oid))
        if p["meta"]:
            L.append(_meta("trsm%d" % bi, "bk", "b%d" % bi))
        for _ in range(nt):
            shape = p["shape"] if (p.get("shape") is not None and k == 0) else POOL[(k + p.get("pool_shift", 0)) % len(POOL)]
            rooted = {"rooted": True, "unrooted": False, "mixed": k % 2 == 0}[p["rooting"]]
            otu_ids = ["%s_t%d" % (oid, j) for j in range(len(labs))]
            L += [" " + x for x in nexml_tree("tr%d" % k, k, shape, otu_ids, labs, rooted, p["lens"], p["ilab"], p["meta"])]
            k += 1
        L.append("</trees>")
    L.append("</nex:nexml>")
    return "\n".join(L) + "\n", list(layout)


DNA_STATES = [("A", "s1"), ("C", "s2"), ("G", "s3"), ("T", "s4"), ("-", "s5")]


def nexml_chars(cid, oid, labs, kind, seqs=None):
    seqs = seqs or ["ACGT", "A-GT", "AC?T", "ACGA"]
    L = ['<characters id="%s" label="M_%s" otus="%s" xsi:type="nex:DnaSeqs">' % (cid, cid, oid), " <format>",
         '  <states id="%s_st">' % cid]
    for sym, sid in DNA_STATES:
        L.append('   <state id="%s_%s" symbol="%s"/>' % (cid, sid, sym))
    L.append('   <uncertain_state_set id="%s_s6" symbol="?">' % cid)
    for sym, sid in DNA_STATES:
        L.append('    <member state="%s_%s"/>' % (cid, sid))
    L.append("   </uncertain_state_set>")
    L.append("  </states>")
    for j in range(len(seqs[0])):
        L.append('  <char id="%s_c%d" states="%s_st"/>' % (cid, j, cid))
    L.append(" </format>")
    L.append(" <matrix>")
    for j, ((lab, _), seq) in enumerate(zip(labs, seqs)):
        L.append('  <row id="%s_r%d" otu="%s_t%d"><seq>%s</seq></row>' % (cid, j, oid, j, seq))
    L.append(" </matrix>")
    L.append("</characters>")
    return L


# ---------------------------------------------------------------------------
# character documents

CHAR_ROWS = {
    "dna": ["ACGTA", "A-GTC", "AC?TG", "ACGAT"],
    "protein": ["ARNDC", "AR-DC", "A?NDQ", "ERNDC"],
    "standard": ["01201", "0?211", "11200", "10-01"],
    "continuous": [["0.5", "1", "2.25", "-1e-1", "3"], ["1.5", "1", "0", "2", "3"],
                   ["0.5", "7", "2.25", "4", "3"], ["9", "1", "2.5", "2", "3.125"]],
}
CHAR_CLASS = {"dna": "DnaCharacterMatrix", "protein": "ProteinCharacterMatrix",
              "standard": "StandardCharacterMatrix", "continuous": "ContinuousCharacterMatrix"}


def _rows_for(kind, variant, matchchar, multistate):
    rows = [r if isinstance(r, list) else list(r) for r in CHAR_ROWS[kind]]
    rows = [list(r) for r in rows]
    if variant:            # second matrix: rotate columns so the two matrices differ
        rows = [r[1:] + r[:1] for r in rows]
    if kind != "continuous":
        if multistate:
            ms = {"dna": ("{AG}", "(CT)"), "protein": ("{AR}", "(ND)"), "standard": ("{01}", "(12)")}[kind]
            rows[1][2] = ms[0]
            rows[2][4] = ms[1]
        if matchchar:
            first = rows[0]
            for ri in (1, 3):
                for ci in range(len(first)):
                    if rows[ri][ci] == first[ci] and len(first[ci]) == 1 and ci % 2 == 0:
                        rows[ri][ci] = "."
    return rows


def nexus_char_doc(p):
    """p: dict(kind, block, interleave, matchchar, multistate, two, trees, sets, nl)
    block: 'data' (no TAXA block) | 'characters' (TAXA block first)
    -> (text, [class names per matrix], n_tree_blocks)"""
    nl = p.get("nl", "\n")
    kind = p["kind"]
    L = ["#NEXUS"]
    if p["block"] == "characters":
        L += _taxa_block(None, LAB_A, nl)

    def trees_block():
        return ["BEGIN TREES;", " TREE t1 = [&R] ((a:1,B:2):1,(c_x:1,'d q':1):3);", " TREE t2 = (a,b,(c_x,'d q'));", "END;"]
    if p["trees"] == "before":
        L += trees_block()
    classes = []
    for mi in range(2 if p["two"] else 1):
        k2 = kind
        L.append("BEGIN %s;" % ("DATA" if p["block"] == "data" else "CHARACTERS"))
        if p["two"]:
            L.append(" TITLE mat%d;" % (mi + 1))
        dims = " DIMENSIONS %sNCHAR=5;" % ("NTAX=4 " if p["block"] == "data" else "")
        L.append(dims)
        fmt = {"dna": "DATATYPE=DNA GAP=- MISSING=?", "protein": "DATATYPE=PROTEIN GAP=- MISSING=?",
               "standard": "DATATYPE=STANDARD SYMBOLS=\"012\" GAP=- MISSING=?", "continuous": "DATATYPE=CONTINUOUS"}[k2]
        if p["matchchar"] and k2 != "continuous":
            fmt += " MATCHCHAR=."
        if p["interleave"]:
            fmt += " INTERLEAVE"
        L.append(" FORMAT %s;" % fmt)
        L.append(" MATRIX")
        rows = _rows_for(k2, mi, p["matchchar"], p["multistate"])
        sep = " " if k2 == "continuous" else ""
        if p["interleave"]:
            for lo, hi in ((0, 3), (3, 5)):
                for (lab, t), r in zip(LAB_A, rows):
                    L.append("  %s %s" % (t, sep.join(r[lo:hi])))
                if lo == 0:
                    L.append("")
        else:
            for (lab, t), r in zip(LAB_A, rows):
                L.append("  %s %s" % (t, sep.join(r)))
        L.append(" ;")
        L.append("END;")
        classes.append(CHAR_CLASS[k2])
    if p["sets"]:
        L += ["BEGIN SETS;"]
        if p["two"]:
            L += [" LINK CHARACTERS = mat1;"]
        L += [" CHARSET first = 1-2;", " CHARSET odd = 1-5\\2;", "END;"]
    if p["trees"] == "after":
        L += trees_block()
    text = "\n".join(L) + "\n"
    if nl != "\n":
        # interleaved matrices need real line ends; only the line terminator style changes
        text = text.replace("\n", nl)
    return text, classes, (1 if p["trees"] != "none" else 0)


def fasta_doc(kind, variant=0):
    rows = ["".join(r) for r in _rows_for(kind, variant, False, False)]
    L = []
    for (lab, t), r in zip(LAB_A, rows):
        L.append(">%s" % lab)
        L.append(r[:3])
        L.append(r[3:])
    return "\n".join(L) + "\n"


def phylip_doc(kind, variant=0, interleaved=False):
    rows = ["".join(r) for r in _rows_for(kind, variant, False, False)]
    labs = ["a", "B", "c_x", "d_q"]
    L = [" 4 5"]
    if interleaved:
        for lab, r in zip(labs, rows):
            L.append("%-10s%s" % (lab, r[:3]))
        L.append("")
        for r in rows:
            L.append(r[3:])
    else:
        for lab, r in zip(labs, rows):
            L.append("%-10s%s" % (lab, r))
    return "\n".join(L) + "\n"


def nexml_char_doc(two, with_trees):
    L = [NEXML_HEAD.rstrip("\n")]
    L.append('<otus id="o1" label="taxa_o1">')
    for j, (lab, _) in enumerate(LAB_A):
        L.append(' <otu id="o1_t%d" label="%s"/>' % (j, lab))
    L.append("</otus>")
    L += nexml_chars("ch1", "o1", LAB_A, "dna")
    if two:
        L += nexml_chars("ch2", "o1", LAB_A, "dna", ["CGTA", "-GTA", "C?TA", "CGAA"])
    if with_trees:
        L.append('<trees id="trs0" label="block0" otus="o1">')
        L += nexml_tree("tr0", 0, POOL[0], ["o1_t%d" % j for j in range(4)], LAB_A, True, "int", True, False)
        L.append("</trees>")
    L.append("</nex:nexml>")
    return "\n".join(L) + "\n", ["DnaCharacterMatrix"] * (2 if two else 1)


# ---------------------------------------------------------------------------
# label-vocabulary documents: two four-leaf trees whose leaf tokens are given explicitly
# (letters, integers that collide with taxon positions, integers beyond the namespace,
# zero-padded and quoted integers, labels equal up to case)

VOCAB_BASE = ["a", "b", "c", "d"]
VOCAB_FIRST = ["x", "1", "2", "3", "5", "9", "01", "'2'", "A"]
VOCAB_LATER = ["b", "x", "1", "2", "3", "4", "5", "9", "01", "02", "'2'", "'3'", "A", "B"]


def vocab_first_variants(positions):
    out = [list(VOCAB_BASE)]
    for p in positions:
        for v in VOCAB_FIRST:
            t = list(VOCAB_BASE)
            t[p] = v
            out.append(t)
    return out


def vocab_later_variants(both_ends):
    out = [["a", "d", "c", w] for w in VOCAB_LATER]
    if both_ends:
        out += [[w, "d", "c", "a"] for w in VOCAB_LATER if w != "a"]
    return out


def _unq(tok):
    return tok[1:-1] if tok.startswith("'") else tok


def vocab_newick_doc(first, later, third=None):
    L = ["((%s,%s),(%s,%s));" % tuple(first), "((%s,%s),(%s,%s));" % tuple(later)]
    if third:
        L.append("(%s,(%s,(%s,%s)));" % tuple(third))
    return "\n".join(L) + "\n", [len(L)]


def vocab_nexus_doc(first, later, taxa, layout):
    """taxa: 'none' | 'one' (TAXLABELS = tokens of the first tree); layout (2,) or (1,1); no TRANSLATE"""
    L = ["#NEXUS"]
    if taxa == "one":
        L += ["BEGIN TAXA;", " DIMENSIONS NTAX=4;", " TAXLABELS %s;" % " ".join(first), "END;"]
    trees = [" TREE t1 = ((%s,%s),(%s,%s));" % tuple(first), " TREE t2 = ((%s,%s),(%s,%s));" % tuple(later)]
    if tuple(layout) == (2,):
        L += ["BEGIN TREES;"] + trees + ["END;"]
    else:
        L += ["BEGIN TREES;", trees[0], "END;", "BEGIN TREES;", trees[1], "END;"]
    return "\n".join(L) + "\n", list(layout)


def vocab_nexml_doc(first, later, layout):
    labels = []
    for t in list(first) + list(later):
        if _unq(t) not in labels:
            labels.append(_unq(t))
    labs = [(l, l) for l in labels]
    L = [NEXML_HEAD.rstrip("\n"), '<otus id="o1" label="taxa_o1">']
    for j, l in enumerate(labels):
        L.append(' <otu id="o1_t%d" label="%s"/>' % (j, l))
    L.append("</otus>")
    otu_ids = ["o1_t%d" % j for j in range(len(labels))]
    shapes = []
    for toks in (first, later):
        idx = [labels.index(_unq(t)) for t in toks]
        shapes.append(((idx[0], idx[1]), (idx[2], idx[3])))
    k = 0
    for bi, nt in enumerate(layout):
        L.append('<trees id="trs%d" label="block%d" otus="o1">' % (bi, bi))
        for _ in range(nt):
            L += [" " + x for x in nexml_tree("tr%d" % k, k, shapes[k], otu_ids, labs, k == 0, "none", False, False)]
            k += 1
        L.append("</trees>")
    L.append("</nex:nexml>")
    return "\n".join(L) + "\n", list(layout)


# ---------------------------------------------------------------------------
# multi-source menus: small documents over one label pool that are read one after the other
# into ONE namespace (same labels in another TAXA / otu / TRANSLATE order, the same ids or
# tokens bound to other labels, subsets and supersets of the labels, different tree counts)

def _nexus_multi(order, translate, trees, taxa_block=True):
    """order: labels in TAXA / TRANSLATE order; translate: None | 'num' | 'alpha'; trees: shapes over
    indices into `order`"""
    L = ["#NEXUS"]
    if taxa_block:
        L += ["BEGIN TAXA;", " DIMENSIONS NTAX=%d;" % len(order), " TAXLABELS %s;" % " ".join(order), "END;"]
    L.append("BEGIN TREES;")
    if translate:
        toks = [("%d" % (j + 1)) if translate == "num" else ("T%d" % (j + 1)) for j in range(len(order))]
        L.append(" TRANSLATE " + ", ".join("%s %s" % (t, l) for t, l in zip(toks, order)) + ";")
    else:
        toks = list(order)
    for k, sh in enumerate(trees):
        L.append(" TREE t%d = %s;" % (k + 1, newick_body(sh, lambda i: toks[i], "int", False, "none")))
    L.append("END;")
    return "\n".join(L) + "\n"


def _nexml_multi(order, otus_id, trees):
    """order: otu labels; '' gives label="" (present but empty), None an otu without label attribute"""
    labs = [(l if l else "leaf%d" % j, l) for j, l in enumerate(order)]
    L = [NEXML_HEAD.rstrip("\n"), '<otus id="%s" label="taxa">' % otus_id]
    for j, l in enumerate(order):
        L.append(' <otu id="%s_t%d"%s/>' % (otus_id, j, "" if l is None else ' label="%s"' % l))
    L.append("</otus>")
    L.append('<trees id="trs0" label="block0" otus="%s">' % otus_id)
    ids = ["%s_t%d" % (otus_id, j) for j in range(len(order))]
    for k, sh in enumerate(trees):
        L += [" " + x for x in nexml_tree("tr%d" % k, k, sh, ids, labs, False, "int", False, False)]
    L.append("</trees>")
    L.append("</nex:nexml>")
    return "\n".join(L) + "\n"


S4 = ((0, 1), (2, 3))
S4b = (0, (1, (2, 3)))
S3 = (0, (1, 2))
S5 = ((0, 4), (1, (2, 3)))


# otu label lists for the empty / missing label vocabulary ('' = label="", None = no label attribute)
NEXML_EMPTY_LABEL_SETS = [
    ("empty-alone", [""], 0),
    ("empty-with-ordinary", ["a", "", "c", "d"], S4),
    ("empty-first", ["", "b", "c"], S3),
    ("missing-alone", [None], 0),
    ("missing-with-ordinary", ["a", None, "c", "d"], S4),
    ("empty-and-missing", ["", None, "c", "d"], S4),
]


def nexml_empty_label_doc(order, shape, two_trees):
    trees = [shape] + ([shape] if two_trees else [])
    return _nexml_multi(order, "o1", trees), [len(trees)]


def quoted_empty_label_doc(schema, two_trees):
    """Newick / NEXUS can write an empty label as a pair of quotes"""
    if schema == "newick":
        t = "((a,''),(c,d));\n" + ("(d,('',a));\n" if two_trees else "")
        return t, [2 if two_trees else 1]
    return _nexus_multi(["a", "''", "c", "d"], None, [S4] + ([S4b] if two_trees else [])), [2 if two_trees else 1]


def multi_menu(schema):
    """[(name, text, number of trees)]"""
    if schema == "newick":
        return [("base", "((a,b),(c,d));\n", 1),
                ("reordered-2-trees", "((d,c),(b,a));\n(a,(b,(c,d)));\n", 2),
                ("subset", "(a,(b,c));\n", 1),
                ("superset", "((a,e),(b,(c,d)));\n", 1),
                ("reordered-3-trees", "(b,a,d,c);\n(c,d,a,b);\n(d,(c,(b,a)));\n", 3),
                ("empty-label", "((a,''),(c,d));\n(d,('',a));\n", 2)]
    if schema == "nexus":
        return [("base", _nexus_multi(["a", "b", "c", "d"], "num", [S4]), 1),
                ("rebound-tokens-2-trees", _nexus_multi(["d", "c", "b", "a"], "num", [S4, S4b]), 2),
                ("subset-no-taxa-block", _nexus_multi(["a", "b", "c"], None, [S3], taxa_block=False), 1),
                ("superset", _nexus_multi(["a", "b", "c", "d", "e"], "num", [S5]), 1),
                ("reordered-alpha-tokens", _nexus_multi(["b", "a", "d", "c"], "alpha", [S4b]), 1),
                ("empty-label-no-taxa-block", _nexus_multi(["a", "''", "c", "d"], None, [S4, S4b], taxa_block=False), 2)]
    if schema == "nexml":
        return [("base", _nexml_multi(["a", "b", "c", "d"], "o1", [S4]), 1),
                ("rebound-ids-2-trees", _nexml_multi(["d", "c", "b", "a"], "o1", [S4, S4b]), 2),
                ("subset", _nexml_multi(["a", "b", "c"], "o1", [S3]), 1),
                ("superset", _nexml_multi(["a", "b", "c", "d", "e"], "o1", [S5]), 1),
                ("reordered-other-otus-id", _nexml_multi(["b", "a", "d", "c"], "o2", [S4b]), 1),
                ("empty-label", _nexml_multi(["a", "", "c", "d"], "o1", [S4, S4b]), 2),
                ("empty-label-other-position", _nexml_multi(["", "d", "a"], "o1", [S3]), 1)]
    raise ValueError(schema)


def selftest():
    t, b = newick_doc(dict(n_trees=2, rooting="mixed", weights=True, com="both", nl="\n", lens="int", ilab=True))
    assert t.count(";") == 2 and b == [2]
    t, b = nexus_doc(dict(layout=(2, 1), taxa="one", translate="perm", rooting="mixed", weights=True, com="both",
                          nl="\n", chars="none", lens="int", ilab=True))
    assert t.startswith("#NEXUS") and b == [2, 1] and t.count("TRANSLATE") == 2
    t, b = nexml_doc(dict(layout=(1, 2), otus="one", rooting="mixed", meta=True, lens="int", ilab=True))
    assert t.count("<tree ") == 3
    return True


if __name__ == "__main__":
    selftest()
    print("readdocs ok")
