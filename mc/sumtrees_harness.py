"""Runs the real SumTrees master/worker code in-process under mc.sched (C06 B/C)."""
import os
import types
import multiprocessing as _real_mp
import queue as _queue

import dendropy
from dendropy.application import sumtrees

from . import ref
from .sched import Sched, SQueue, SLock, Deadlock, ReplayMismatch


def summary(ta, with_queries=True):
    """Observable summary of a TreeArray (what C06's statement lists), in plain values.
    Returns (summary dict, list of problems raised by per-tree queries)."""
    probs = []
    sd = ta._split_distribution
    out = {}
    out["n"] = len(ta)
    out["counts"] = {int(k): round(float(v), 9) for k, v in sd.split_counts.items() if v}
    try:
        out["freqs"] = {int(k): round(float(v), 9) for k, v in sd.split_frequencies.items() if sd.split_counts.get(k)}
    except Exception as e:
        probs.append(("split_frequencies", e))
    out["lengths"] = {int(k): sorted(round(float(x), 9) for x in v) for k, v in sd.split_edge_lengths.items() if v}
    out["ages"] = {int(k): sorted(round(float(x), 9) for x in v) for k, v in sd.split_node_ages.items() if v}
    if with_queries and len(ta) > 0:
        n = len(ta._tree_split_bitmasks)
        if not (len(ta._tree_edge_lengths) == n and len(ta._tree_leafset_bitmasks) == n and len(ta._tree_weights) == n):
            probs.append(("parallel-lists", "per-tree lists have lengths %d/%d/%d/%d" % (
                n, len(ta._tree_edge_lengths), len(ta._tree_leafset_bitmasks), len(ta._tree_weights))))
        try:
            ct = ta.consensus_tree(min_freq=0.5)
            out["consensus"] = support_map(ct)
        except Exception as e:
            probs.append(("consensus_tree", e))
        try:
            scores, idx = ta.calculate_log_product_of_split_supports()
            out["mcc_score"] = round(max(scores), 9)
            best = [i for i, s in enumerate(scores) if abs(s - max(scores)) < 1e-12]
            tops = set()
            for i in best:
                tops.add(frozenset(ta._tree_split_bitmasks[i]))
            if len(tops) == 1:
                t = ta.maximum_product_of_split_support_tree()
                out["mcc_topology"] = ref.topology_key(ref.snapshot(t)[1], bool(ta._is_rooted_trees))
            out["logprod_scores"] = sorted(round(s, 9) for s in scores)
        except Exception as e:
            probs.append(("calculate_log_product_of_split_supports", e))
        try:
            scores, idx = ta.calculate_sum_of_split_supports()
            out["sum_scores"] = sorted(round(s, 9) for s in scores)
        except Exception as e:
            probs.append(("calculate_sum_of_split_supports", e))
        try:
            tops = []
            for i in range(len(ta)):
                t = ta.restore_tree(i)
                tops.append(repr(sorted(map(sorted, ref.topology_key(ref.snapshot(t)[1], bool(ta._is_rooted_trees))), key=repr)))
            out["restored"] = sorted(tops)
        except Exception as e:
            probs.append(("restore_tree", e))
        try:
            fr = ta.split_bitmask_set_frequencies()
            out["topology_freqs"] = sorted((sorted(int(x) for x in k), round(v, 9)) for k, v in fr.items())
            out["n_topologies"] = len(ta.topologies())
        except Exception as e:
            probs.append(("topologies", e))
    return out, probs


def support_map(tree):
    """clade (frozenset of labels) -> support of the node subtending it"""
    out = {}

    def rec(nd):
        if not nd._child_nodes:
            cl = frozenset([nd.taxon._label]) if nd.taxon is not None else frozenset()
        else:
            cl = frozenset()
            for c in nd._child_nodes:
                cl |= rec(c)
        sup = getattr(nd, "support", None)
        out[cl] = None if sup is None else round(float(sup), 9)
        return cl
    rec(tree._seed_node)
    return out


def diff_summaries(a, b):
    return [k for k in sorted(set(a) | set(b)) if a.get(k) != b.get(k)]


# ---------------------------------------------------------------------------

class ShimMP(object):
    """namespace standing in for the `multiprocessing` module inside sumtrees"""

    def __init__(self, sched):
        self._sched = sched
        self.Process = _real_mp.Process
        self.cpu_count = _real_mp.cpu_count

    def Queue(self, *a, **k):
        return SQueue(self._sched)

    def Lock(self):
        return SLock()


class Patched(object):
    def __init__(self, sched):
        self.sched = sched

    def __enter__(self):
        self.saved_mp = sumtrees.multiprocessing
        self.saved = {k: sumtrees.TreeAnalysisWorker.__dict__.get(k) for k in ("start", "terminate", "join")}
        sumtrees.multiprocessing = ShimMP(self.sched)
        sched = self.sched

        def start(worker):
            sched.child_spawn(worker.name, worker.run)

        def terminate(worker):
            worker.kill_received = True

        def join(worker, timeout=None):
            return None
        sumtrees.TreeAnalysisWorker.start = start
        sumtrees.TreeAnalysisWorker.terminate = terminate
        sumtrees.TreeAnalysisWorker.join = join
        return self

    def __exit__(self, *a):
        sumtrees.multiprocessing = self.saved_mp
        for k, v in self.saved.items():
            if v is None:
                try:
                    delattr(sumtrees.TreeAnalysisWorker, k)
                except AttributeError:
                    pass
            else:
                setattr(sumtrees.TreeAnalysisWorker, k, v)
        return False


def make_processor(cfg, nproc):
    return sumtrees.TreeProcessor(
        is_source_trees_rooted=cfg["rooted"],
        ignore_edge_lengths=False,
        ignore_node_ages=True,
        use_tree_weights=True,
        ultrametricity_precision=1e-5,
        taxon_label_age_map=None,
        num_processes=nproc,
        log_frequency=cfg.get("log_frequency", 0),
        messenger=None,
        debug_mode=True,
    )


def serial(cfg):
    tp = make_processor(cfg, 1)
    ns = dendropy.TaxonNamespace(cfg["labels"])
    return tp.serial_analyze_trees(tree_sources=cfg["files"], schema=cfg["schema"], taxon_namespace=ns)


class Execution(object):
    """One controlled run of parallel_analyze_trees.  `chooser(ex)` is asked at every
    scheduling point and returns (tid, answer)."""

    def __init__(self, cfg, nworkers):
        self.cfg = cfg
        self.W = nworkers
        self.sched = Sched()
        self.trace = []     # (tid, kind, queue, outcome) for worker-visible operations
        self.result = None
        self.error = None
        self.deadlock = False

    def worker_tids(self):
        return [t.tid for t in self.sched.tasks if t.tid != 0]

    def run(self, chooser, eager_master=True, max_steps=10000):
        cfg = self.cfg
        s = self.sched
        tp = make_processor(cfg, self.W)
        ns = dendropy.TaxonNamespace(cfg["labels"])
        with Patched(s):
            master = s.spawn("master", lambda: tp.parallel_analyze_trees(
                tree_sources=cfg["files"], schema=cfg["schema"], taxon_namespace=ns))
            try:
                steps = 0
                while not s.all_finished():
                    en = s.enabled()
                    if not en:
                        self.deadlock = True
                        break
                    steps += 1
                    if steps > max_steps:
                        raise RuntimeError("step cap hit")
                    if eager_master and 0 in en:
                        tid, answer = 0, None
                    else:
                        tid, answer = chooser(self, en)
                    n0 = len(s.log)
                    s.step(tid, answer)
                    for ent in s.log[n0:]:
                        self.trace.append(ent)
            finally:
                s.abort()
        self.error = master.error
        self.result = master.result
        for t in s.tasks[1:]:
            if t.error is not None and self.error is None:
                self.error = t.error
        return self

    # -- classification ------------------------------------------------------------
    def outcome_class(self):
        """Trace class of DESIGN C06, canonical under the stated independence relation:
        (order in which files were handed out, each worker's own sequence of poll answers,
        arrival order of results).  Polls answered Empty commute with each other and polls
        commute with posts, so their relative order is not part of the class."""
        handed = []
        per = {}
        posts = []
        for tid, kind, q, outcome in self.trace:
            if tid <= 0:
                continue
            if kind == "get_nowait":
                if isinstance(outcome, str) and outcome not in ("Empty", "SpuriousEmpty"):
                    o = os.path.basename(outcome)
                    handed.append((tid, o))
                else:
                    o = outcome
                per.setdefault(tid, []).append(o)
            elif kind == "put":
                posts.append(tid)
        return (tuple(handed), tuple(sorted((t, tuple(v)) for t, v in per.items())), tuple(posts))

    def assignment(self):
        a = {}
        for tid, o in self.outcome_class()[0]:
            a.setdefault(tid, []).append(o)
        return a


def run_model_schedule(cfg, W, labels, parse_label):
    """Replay one model behaviour (list of TLC action labels) step by step on the real
    code.  At every step the task the model names must be enabled and about to perform
    the operation the model labels; otherwise ReplayMismatch is raised."""
    from .sched_explore import SPURIOUS
    ex = Execution(cfg, W)
    s = ex.sched
    tp = make_processor(cfg, W)
    ns = dendropy.TaxonNamespace(cfg["labels"])
    validated = 0
    with Patched(s):
        master = s.spawn("master", lambda: tp.parallel_analyze_trees(
            tree_sources=cfg["files"], schema=cfg["schema"], taxon_namespace=ns))
        try:
            def do(tid, answer=None):
                n0 = len(s.log)
                s.step(tid, answer)
                ex.trace.extend(s.log[n0:])
            # set-up: master creates queues, starts workers, parks at its first results.get;
            # every worker runs from start to its first poll (no visible operation)
            guard = 0
            while not master.finished and (master.pending is None or master.pending != ("get", _results_name(s))):
                do(0)
                guard += 1
                if guard > 1000:
                    raise ReplayMismatch("master never reached results.get")
            if len(s.tasks) != W + 1:
                raise ReplayMismatch("expected %d workers, implementation started %d" % (W, len(s.tasks) - 1))
            for t in s.tasks[1:]:
                if t.pending == ("start", None):
                    do(t.tid)
            wq = _work_name(s)
            rq = _results_name(s)
            for lab in labels:
                a, w = parse_label(lab)
                if a == "Collect":
                    if master.finished:
                        if master.error is None:
                            raise ReplayMismatch("model collects but the master has already returned")
                        continue  # master died on an earlier update: verdict comes from ex.error
                    if master.pending != ("get", rq) or not s.queues[rq].items:
                        raise ReplayMismatch("model step Collect but master is at %r with %d results queued" % (master.pending, len(s.queues[rq].items)))
                    do(0)
                    validated += 1
                    continue
                t = s.tasks[w]
                if t.finished:
                    raise ReplayMismatch("model step %s but worker %d has finished" % (lab, w))
                if a in ("Poll", "PollEmpty", "Spurious"):
                    if t.pending != ("get_nowait", wq):
                        raise ReplayMismatch("model step %s but worker %d is at %r" % (lab, w, t.pending))
                    nonempty = bool(s.queues[wq].items)
                    if (a == "PollEmpty") == nonempty:
                        raise ReplayMismatch("model step %s but work queue is %s" % (lab, "non-empty" if nonempty else "empty"))
                    do(w, SPURIOUS if a == "Spurious" else None)
                elif a == "Post":
                    if t.pending != ("put", rq):
                        raise ReplayMismatch("model step %s but worker %d is at %r" % (lab, w, t.pending))
                    do(w)
                else:
                    raise ReplayMismatch("unknown model action %r" % lab)
                validated += 1
            # the model's terminal state: everything done
            guard = 0
            while not s.all_finished():
                en = s.enabled()
                if not en:
                    ex.deadlock = True
                    break
                if master.error is None and not master.finished:
                    raise ReplayMismatch("model behaviour ended but implementation still has enabled tasks %r" % (en,))
                do(en[0])
                guard += 1
                if guard > 1000:
                    raise ReplayMismatch("implementation does not quiesce")
        finally:
            s.abort()
    ex.error = master.error
    ex.result = master.result
    for t in s.tasks[1:]:
        if t.error is not None and ex.error is None:
            ex.error = t.error
    ex.validated_steps = validated
    return ex


def _work_name(s):
    return sorted(s.queues)[0]


def _results_name(s):
    names = sorted(s.queues)
    return names[1] if len(names) > 1 else None
