"""Deterministic hang detection (DESIGN 2.4).

`line_budget(n)` counts LINE events executed in code under /repo/src/dendropy with
sys.monitoring and raises BudgetExceeded into the running frame once more than
`n` have been executed: a deterministic verdict, independent of wall-clock time.

`time_limit(s)` is the cheap backstop used around ordinary cases; a case that
trips it is re-run under `line_budget` before anything is reported, so the
verdict that is printed never depends on machine load.
"""
import contextlib
import os
import signal
import sys

REPO_SRC = os.path.join(os.path.realpath(os.environ.get("VERIF_DENDROPY_SRC") or "/repo/src"), "dendropy")


class BudgetExceeded(BaseException):
    """BaseException so that `except Exception` inside the library cannot swallow it."""

    def __init__(self, where, count):
        BaseException.__init__(self, "step budget exceeded at %s after %d line events" % (where, count))
        self.where = where
        self.count = count


class WallTimeout(BaseException):
    pass


_TOOL = 4  # free tool id
_state = {"count": 0, "budget": 0, "active": False, "max": 0}


def _on_line(code, lineno):
    fn = code.co_filename
    if not fn.startswith(REPO_SRC):
        return sys.monitoring.DISABLE
    if not _state["active"]:
        return None
    _state["count"] += 1
    if _state["count"] > _state["budget"]:
        _state["active"] = False
        raise BudgetExceeded("%s:%d" % (code.co_name, lineno), _state["count"])
    return None


_installed = [False]


def _install():
    if _installed[0]:
        return
    mon = sys.monitoring
    try:
        mon.use_tool_id(_TOOL, "verif-budget")
    except ValueError:
        pass
    mon.register_callback(_TOOL, mon.events.LINE, _on_line)
    _installed[0] = True


@contextlib.contextmanager
def line_budget(n):
    """Count dendropy LINE events; raise BudgetExceeded beyond n.  Yields a dict whose
    'count' is filled in on exit."""
    _install()
    mon = sys.monitoring
    info = {"count": 0}
    _state["count"] = 0
    _state["budget"] = n
    _state["active"] = True
    mon.set_events(_TOOL, mon.events.LINE)
    mon.restart_events()
    try:
        yield info
    finally:
        _state["active"] = False
        mon.set_events(_TOOL, 0)
        info["count"] = _state["count"]
        if _state["count"] > _state["max"]:
            _state["max"] = _state["count"]


def _alarm(signum, frame):
    raise WallTimeout()


@contextlib.contextmanager
def time_limit(seconds):
    old = signal.signal(signal.SIGALRM, _alarm)
    # repeating: an alarm that lands inside a __del__ / except-all is swallowed by the
    # interpreter ('Exception ignored in'), so keep firing until the block is left
    signal.setitimer(signal.ITIMER_REAL, seconds, 0.05)
    try:
        yield
    finally:
        signal.setitimer(signal.ITIMER_REAL, 0)
        signal.signal(signal.SIGALRM, old)


def guarded(fn, wall=20.0, budget=3000000):
    """Run fn() with a wall-clock backstop; if the backstop fires re-run under the
    deterministic line budget.  Returns ("ok", value) | ("exc", exception) |
    ("hang", where).  fn must be re-runnable (build fresh objects inside)."""
    try:
        with time_limit(wall):
            return ("ok", fn())
    except WallTimeout:
        pass
    except BudgetExceeded as e:  # nested use
        return ("hang", e.where)
    except Exception as e:
        return ("exc", e)
    try:
        with line_budget(budget):
            return ("ok", fn())
    except BudgetExceeded as e:
        return ("hang", e.where)
    except Exception as e:
        return ("exc", e)


def budgeted(fn, budget):
    """Run fn() under the line budget only.  Returns (status, value, line_count)."""
    try:
        with line_budget(budget) as info:
            v = fn()
        return ("ok", v, info["count"])
    except BudgetExceeded as e:
        return ("hang", e.where, e.count)
    except RecursionError as e:
        return ("exc", e, _state["count"])
    except Exception as e:
        return ("exc", e, _state["count"])


def selftest():
    import dendropy
    st, v, n = budgeted(lambda: dendropy.Tree.get(data="((a,b),c);", schema="newick"), 200000)
    assert st == "ok" and 50 < n < 200000, (st, n)
    st, v, n = budgeted(lambda: dendropy.DataSet.get(data="#NEXUS\nBEGIN TAXA;\n DIMENSIONS NTAX=2;\n TAXLABELS a b;\nEND;\nBEGIN TREES;\n LINK FOO = bar;\n TREE t = (a,b);\nEND;\n", schema="nexus"), 200000)
    # on the pinned tree this is the F18 hang; after a repair it parses or raises
    assert st in ("ok", "hang", "exc")
    # a genuinely infinite loop inside dendropy-like code is not available without the
    # library; check the wall-clock path instead
    try:
        with time_limit(0.05):
            while True:
                pass
    except WallTimeout:
        pass
    else:
        raise AssertionError("time_limit did not fire")
    return True


if __name__ == "__main__":
    selftest()
    print("budget ok")
