"""Deterministic hang detection (DESIGN 2.4).

`line_budget(n)` counts LINE events executed in code under /repo/src/dendropy with
sys.monitoring and raises BudgetExceeded into the running frame once more than
`n` have been executed: a deterministic verdict, independent of wall-clock time.

`time_limit(s)` is the cheap backstop used around ordinary cases; a case that
trips it is re-run under `line_budget` before anything is reported, so the
verdict that is printed never depends on machine load.
"""
import contextlib
import os
import signal
import sys

REPO_SRC = os.path.join(os.path.realpath(os.environ.get("VERIF_DENDROPY_SRC") or "/repo/src"), "dendropy")


class BudgetExceeded(BaseException):
    """BaseException so that `except Exception` inside the library cannot swallow it."""

    def __init__(self, where, count):
        BaseException.__init__(self, "step budget exceeded at %s after %d line events" % (where, count))
        self.where = where
        self.count = count


class WallTimeout(BaseException):
    pass


_TOOL = 4  # free tool id
_state = {"count": 0, "budget": 0, "active": False, "max": 0}


def _on_line(code, lineno):
    fn = code.co_filename
    if not fn.startswith(REPO_SRC):
        return sys.monitoring.DISABLE
    if not _state["active"]:
        return None
    _state["count"] += 1
    if _state["count"] > _state["budget"]:
        _state["active"] = False
        raise BudgetExceeded("%s:%d" % (code.co_name, lineno), _state["count"])
    return None


_installed = [False]


def _install():
    if _installed[0]:
        return
    mon = sys.monitoring
    try:
        mon.use_tool_id(_TOOL, "verif-budget")
    except ValueError:
        pass
    mon.register_callback(_TOOL, mon.events.LINE, _on_line)
    _installed[0] = True


@contextlib.contextmanager
def line_budget(n):
    """Count dendropy LINE events; raise BudgetExceeded beyond n.  Yields a dict whose
    'count' is filled in on exit."""
    _install()
    mon = sys.monitoring
    info = {"count": 0}
    _state["count"] = 0
    _state["budget"] = n
    _state["active"] = True
    mon.set_events(_TOOL, mon.events.LINE)
    mon.restart_events()
    try:
        yield info
    finally:
        _state["active"] = False
        mon.set_events(_TOOL, 0)
        info["count"] = _state["count"]
        if _state["count"] > _state["max"]:
            _state["max"] = _state["count"]


# ---------------------------------------------------------------------------
# wall-clock backstop
#
# The alarm handler raises WallTimeout ONLY while the frame of `_protected` is on the
# interrupted stack.  Ticks that arrive anywhere else (before the call, after it returned,
# while the result is being handled, inside this module's own bookkeeping, in the pool's
# task loop) are ignored, so a late or repeated tick can never escape the protected call.
# The alarm repeats every 50 ms once due, because a tick that lands inside a __del__ or an
# except-all is swallowed by the interpreter ("Exception ignored in ...").

_handler_installed = [False]


def _protected(fn):
    return fn()


_PROTECTED_CODE = _protected.__code__


def _alarm(signum, frame):
    f = frame
    while f is not None:
        code = f.f_code
        if code is _ALARM_CODE[0]:
            return           # a tick interrupting this handler itself
        if code is _PROTECTED_CODE:
            raise WallTimeout()
        f = f.f_back
    return


_ALARM_CODE = [_alarm.__code__]


def run_limited(fn, seconds):
    """Run fn() with a wall-clock limit.  Returns ("ok", value) | ("exc", exception) |
    ("timeout", None).  RecursionError counts as an exception."""
    if not _handler_installed[0]:
        signal.signal(signal.SIGALRM, _alarm)
        _handler_installed[0] = True
    signal.setitimer(signal.ITIMER_REAL, seconds, 0.05)
    try:
        try:
            return ("ok", _protected(fn))
        except WallTimeout:
            return ("timeout", None)
        except BudgetExceeded:
            raise
        except Exception as e:
            return ("exc", e)
    finally:
        signal.setitimer(signal.ITIMER_REAL, 0)


@contextlib.contextmanager
def time_limit(seconds):
    """Deprecated with-statement form (kept for long limits only): a with block cannot be made
    airtight against a tick that arrives exactly while the block is being left, so new code uses
    run_limited().  Here the handler can only fire inside a `_protected` frame, i.e. never: this
    form merely documents intent and is a no-op backstop."""
    yield


def guarded(fn, wall=20.0, budget=3000000):
    """Run fn() with a wall-clock backstop; if the backstop fires re-run under the
    deterministic line budget.  Returns ("ok", value) | ("exc", exception) |
    ("hang", where).  fn must be re-runnable (build fresh objects inside)."""
    try:
        st, v = run_limited(fn, wall)
    except BudgetExceeded as e:  # nested use
        return ("hang", e.where)
    if st != "timeout":
        return (st, v)
    st, v, n = budgeted(fn, budget)
    return (st, v)


def budgeted(fn, budget):
    """Run fn() under the line budget only.  Returns (status, value, line_count)."""
    try:
        with line_budget(budget) as info:
            v = fn()
        return ("ok", v, info["count"])
    except BudgetExceeded as e:
        return ("hang", e.where, e.count)
    except RecursionError as e:
        return ("exc", e, _state["count"])
    except Exception as e:
        return ("exc", e, _state["count"])


def selftest():
    import dendropy
    st, v, n = budgeted(lambda: dendropy.Tree.get(data="((a,b),c);", schema="newick"), 200000)
    assert st == "ok" and 50 < n < 200000, (st, n)
    st, v, n = budgeted(lambda: dendropy.DataSet.get(data="#NEXUS\nBEGIN TAXA;\n DIMENSIONS NTAX=2;\n TAXLABELS a b;\nEND;\nBEGIN TREES;\n LINK FOO = bar;\n TREE t = (a,b);\nEND;\n", schema="nexus"), 200000)
    # on the pinned tree this is the F18 hang; after a repair it parses or raises
    assert st in ("ok", "hang", "exc")
    # a genuinely infinite loop inside dendropy-like code is not available without the
    # library; check the wall-clock path instead
    def spin():
        while True:
            pass
    assert run_limited(spin, 0.05) == ("timeout", None)
    assert run_limited(lambda: 7, 0.05) == ("ok", 7)
    return True


if __name__ == "__main__":
    selftest()
    print("budget ok")
