"""Stateless exploration of SumTrees schedules (C06 B): DFS over choice sequences with
prefix replay, sleep sets under the independence relation stated in DESIGN C06, an
eagerly-run master, and a bounded number of 'spurious Empty' environment deviations.
`unreduced=True` switches all reductions off (every enabled task, master included, is a
choice at every point) - used to validate the reduction on small configurations."""
from .sumtrees_harness import Execution

SPURIOUS = "spurious-empty"


class _Recorder(object):
    """chooser that follows a prefix, then the default policy; records every decision"""

    def __init__(self, prefix, sleep0, dev_bound, unreduced):
        self.prefix = list(prefix)
        self.sleep = set(sleep0)
        self.dev_bound = dev_bound
        self.unreduced = unreduced
        self.steps = []   # dict(enabled=[transitions], chosen=transition, sleep=set, info={transition: (kind, queue_empty)})
        self.devs = 0
        self.blocked = False

    def transitions(self, ex, en):
        s = ex.sched
        out = []
        info = {}
        wq_empty = None
        for tid in en:
            kind, q = s.tasks[tid].pending
            qe = (not s.queues[q].items) if q is not None else None
            tr = (tid, None)
            out.append(tr)
            info[tr] = (kind, qe)
            if kind == "get_nowait" and not qe and self.devs < self.dev_bound:
                tr2 = (tid, SPURIOUS)
                out.append(tr2)
                info[tr2] = ("spurious", qe)
        return out, info

    def __call__(self, ex, en):
        trs, info = self.transitions(ex, en)
        i = len(self.steps)
        if i < len(self.prefix):
            ch = tuple(self.prefix[i])
            if ch not in trs:
                raise RuntimeError("replay diverged at step %d: %r not among %r" % (i, ch, trs))
            sleep_here = set()
        else:
            sleep_here = set(self.sleep)
            cands = [t for t in trs if t not in sleep_here]
            if not cands:
                self.blocked = True
                raise _Blocked()
            ch = cands[0]
        self.steps.append({"enabled": trs, "chosen": ch, "sleep": sleep_here, "info": info})
        if i >= len(self.prefix) and not self.unreduced:
            self.sleep = set(x for x in self.sleep if independent(x, ch, info))
        if ch[1] == SPURIOUS:
            self.devs += 1
        return ch


class _Blocked(Exception):
    pass


def independent(x, y, info):
    """independence of two co-enabled transitions in the state described by info"""
    if x[0] == y[0]:
        return False
    kx = info.get(x, (None, None))
    ky = info.get(y, (None, None))
    if kx[0] is None or ky[0] is None:
        return False
    a, b = kx[0], ky[0]
    if a == "start" or b == "start":
        return True
    if a == "spurious" or b == "spurious":
        # a spurious Empty is disabled once the queue is really empty (so it depends on every
        # successful poll) and consumes the deviation budget (so it depends on other deviations)
        other = b if a == "spurious" else a
        return other == "put"
    if a == "get_nowait" and b == "get_nowait":
        return bool(kx[1])          # both answer Empty iff the work queue is empty
    if a == "put" and b == "put":
        return False                # arrival order
    if "get" in (a, b):
        return False                # master (only present in unreduced mode)
    return True                     # get_nowait vs put: different queues


def run_one(cfg, W, prefix, sleep0=(), dev_bound=0, unreduced=False):
    rec = _Recorder(prefix, sleep0, dev_bound, unreduced)
    ex = Execution(cfg, W)
    try:
        ex.run(rec, eager_master=not unreduced)
    except _Blocked:
        pass
    return ex, rec


def explore(cfg, W, dev_bound, on_execution, unreduced=False, max_executions=200000):
    """on_execution(ex, schedule) for every complete execution.  Returns statistics."""
    stats = {"executions": 0, "sleep_blocked": 0, "max_steps": 0}
    stack = [((), frozenset())]
    while stack:
        prefix, sleep0 = stack.pop()
        ex, rec = run_one(cfg, W, prefix, sleep0, dev_bound, unreduced)
        if rec.blocked:
            stats["sleep_blocked"] += 1
        else:
            stats["executions"] += 1
            if stats["executions"] > max_executions:
                raise RuntimeError("execution cap hit")
            on_execution(ex, [s["chosen"] for s in rec.steps])
        stats["max_steps"] = max(stats["max_steps"], len(rec.steps))
        # backtrack points along the recorded path beyond the prefix
        for j in range(len(rec.steps) - 1, len(prefix) - 1, -1):
            st = rec.steps[j]
            base = [s["chosen"] for s in rec.steps[:j]]
            done = [st["chosen"]]
            for alt in st["enabled"]:
                if alt in done or alt in st["sleep"]:
                    continue
                if unreduced:
                    child_sleep = frozenset()
                else:
                    child_sleep = frozenset(x for x in (set(st["sleep"]) | set(done)) if independent(x, alt, st["info"]))
                stack.append((tuple(base) + (alt,), child_sleep))
                done.append(alt)
    return stats
