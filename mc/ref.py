"""Reference model (DESIGN 2.2): pure-Python tree semantics on snapshots.

A *snapshot node* is ``(taxon_label, node_label, length, children)`` with
``children`` a tuple of snapshot nodes.  A *tree snapshot* is
``(is_rooted, root_node)`` with ``is_rooted`` in {True, False, None}.

Nothing in the "reference" half of this file calls dendropy code; the
"observation" half (snapshot / wellformed) reads only primitive fields of live
dendropy objects.
"""
import itertools
import math

# ---------------------------------------------------------------------------
# construction of snapshot nodes from universe shapes

from .universe import LABELS


def mk(shape, lens=None, labels=LABELS, ilabels=None):
    """shape -> snapshot node.  `lens`: None, a number, a callable(preorder index,
    is_leaf, depth) or a list consumed in pre-order.  `ilabels`: None or a callable
    (preorder index) -> internal node label."""
    counter = [0]

    def getlen(is_leaf, depth):
        i = counter[0]
        if lens is None:
            return None
        if callable(lens):
            return lens(i, is_leaf, depth)
        if isinstance(lens, (list, tuple)):
            return lens[i % len(lens)]
        return lens

    def rec(s, depth):
        L = getlen(isinstance(s, int), depth)
        i = counter[0]
        counter[0] += 1
        if isinstance(s, int):
            return (labels[s], None, L, ())
        il = ilabels(i) if ilabels else None
        return (None, il, L, tuple(rec(c, depth + 1) for c in s))
    return rec(shape, 0)


def count_nodes(node):
    return 1 + sum(count_nodes(c) for c in node[3])


def preorder(node):
    yield node
    for c in node[3]:
        for x in preorder(c):
            yield x


def postorder(node):
    for c in node[3]:
        for x in postorder(c):
            yield x
    yield node


def leaves(node):
    """taxon labels of leaf nodes, left to right (None for taxon-less leaves)"""
    if not node[3]:
        return [node[0]]
    out = []
    for c in node[3]:
        out.extend(leaves(c))
    return out


def clade(node):
    return frozenset(x for x in leaves(node) if x is not None)


def strip_lengths(node):
    return (node[0], node[1], None, tuple(strip_lengths(c) for c in node[3]))


def to_newick(node, with_len=True):
    s = ""
    if node[3]:
        s = "(" + ",".join(to_newick(c, with_len) for c in node[3]) + ")"
    s += node[0] if node[0] is not None else (node[1] or "")
    if with_len and node[2] is not None:
        s += ":" + repr(node[2])
    return s


# ---------------------------------------------------------------------------
# splits

def clade_list(node):
    """[(clade, node)] for every node in pre-order."""
    out = []

    def rec(nd):
        if not nd[3]:
            cl = frozenset([nd[0]]) if nd[0] is not None else frozenset()
            out.append((cl, nd))
            return cl
        idx = len(out)
        out.append(None)
        cl = frozenset()
        for c in nd[3]:
            cl = cl | rec(c)
        out[idx] = (cl, nd)
        return cl
    rec(node)
    return out


def rooted_clades(node, nontrivial_only=False):
    allc = clade(node)
    s = set(cl for cl, _ in clade_list(node))
    if nontrivial_only:
        s = set(c for c in s if 1 < len(c) < len(allc))
    return s


def unrooted_splits(node, nontrivial_only=False):
    """set of frozenset({side, other side}); sides non-empty."""
    allc = clade(node)
    out = set()
    for cl, _ in clade_list(node):
        other = allc - cl
        if not cl or not other:
            continue
        if nontrivial_only and (len(cl) < 2 or len(other) < 2):
            continue
        out.add(frozenset([cl, other]))
    return out


def topology_key(node, rooted):
    """Key identifying the rooted (resp. unrooted) topology."""
    if rooted:
        return frozenset(rooted_clades(node))
    return frozenset(unrooted_splits(node))


def split_lengths(node, rooted):
    """per-split merged edge length: dict split -> sum of lengths of all edges
    inducing that split (unifurcation chains; for unrooted trees the two edges at a
    basal bifurcation).  None lengths count as 0; a second dict reports splits with
    a missing length."""
    allc = clade(node)
    out = {}
    missing = set()
    for cl, nd in clade_list(node):
        if rooted:
            key = cl
        else:
            other = allc - cl
            if not cl or not other:
                continue
            key = frozenset([cl, other])
        if nd[2] is None:
            missing.add(key)
        out[key] = out.get(key, 0) + (nd[2] or 0)
    return out, missing


def compatible_rooted(a, b):
    return a <= b or b <= a or not (a & b)


def compatible_unrooted(a, b, allc):
    """a, b: one side each"""
    ac, bc = allc - a, allc - b
    return (not (a & b)) or (not (a & bc)) or (not (ac & b)) or (not (ac & bc))


# ---------------------------------------------------------------------------
# canonical unordered form

def _ckey(x):
    return repr(x)


def canon(node, with_len=True, with_label=True, merge_unifurcations=False):
    """Unordered canonical form (children sorted by repr)."""
    def rec(nd, acc):
        L = nd[2]
        if merge_unifurcations and len(nd[3]) == 1:
            a = None if (acc is None and L is None) else (acc or 0) + (L or 0)
            return rec(nd[3][0], a)
        if acc is not None:
            L = acc + (L or 0)
        kids = tuple(sorted((rec(c, None) for c in nd[3]), key=_ckey))
        return (nd[0], nd[1] if with_label else None, L if with_len else None, kids)
    return rec(node, None)


def ordered(node, with_len=True, with_label=True):
    return (node[0], node[1] if with_label else None, node[2] if with_len else None,
            tuple(ordered(c, with_len, with_label) for c in node[3]))


# ---------------------------------------------------------------------------
# distances

def path_table(node):
    """dict frozenset({a,b}) -> (path length, edge count) between leaves with taxa.
    None lengths count 0."""
    out = {}

    def rec(nd):
        # returns list of (label, dist, edges) from nd down to leaves
        if not nd[3]:
            return [(nd[0], 0.0, 0)] if nd[0] is not None else []
        per_child = []
        for c in nd[3]:
            sub = [(l, d + (c[2] or 0), e + 1) for (l, d, e) in rec(c)]
            per_child.append(sub)
        for i in range(len(per_child)):
            for j in range(i + 1, len(per_child)):
                for (l1, d1, e1) in per_child[i]:
                    for (l2, d2, e2) in per_child[j]:
                        out[frozenset([l1, l2])] = (d1 + d2, e1 + e2)
        res = []
        for sub in per_child:
            res.extend(sub)
        return res
    rec(node)
    return out


def total_length(node, include_root=True):
    t = 0
    for i, nd in enumerate(preorder(node)):
        if i == 0 and not include_root:
            continue
        t += nd[2] or 0
    return t


def root_distances(node):
    """dict leaf label -> distance from root (root edge excluded)"""
    out = {}

    def rec(nd, d):
        if not nd[3]:
            out[nd[0]] = d
        for c in nd[3]:
            rec(c, d + (c[2] or 0))
    rec(node, 0.0)
    return out


# ---------------------------------------------------------------------------
# induced subtree

def induced(node, keep, suppress=True):
    """Tree induced by the leaves whose taxon label is in `keep`.
    Returns a snapshot node or None.  With suppress=True nodes left with one child
    are merged into the child (lengths added; the child's identity kept); the root
    is handled like the library documents: a root left with a single child is
    replaced by that child with accumulated length."""
    def rec(nd):
        if not nd[3]:
            return nd if nd[0] in keep else None
        kids = [k for k in (rec(c) for c in nd[3]) if k is not None]
        if not kids:
            return None
        if len(kids) == 1 and suppress:
            k = kids[0]
            if nd[2] is None and k[2] is None:
                L = None
            else:
                L = (nd[2] or 0) + (k[2] or 0)
            return (k[0], k[1], L, k[3])
        return (nd[0], nd[1], nd[2], tuple(kids))
    return rec(node)


# ---------------------------------------------------------------------------
# float helper

def feq(a, b, tol=1e-9):
    if a is None or b is None:
        return a is b
    return abs(a - b) <= tol * max(1.0, abs(a), abs(b))


# ---------------------------------------------------------------------------
# observation of live dendropy objects (primitive fields only)

def snap_node(nd, _depth=0):
    if _depth > 200:
        raise RuntimeError("snapshot: depth > 200 (cycle?)")
    t = nd.taxon._label if nd.taxon is not None else None
    return (t, nd._label, nd._edge.length if nd._edge is not None else None,
            tuple(snap_node(c, _depth + 1) for c in nd._child_nodes))


def snapshot(tree):
    return (tree._is_rooted, snap_node(tree._seed_node))


def wellformed(tree):
    """Arborescence invariant of C03 from primitive fields.  Returns list of
    problem strings (empty = well formed)."""
    probs = []
    seed = tree._seed_node
    if seed is None:
        return ["seed node is None"]
    if seed._parent_node is not None:
        probs.append("seed has a parent")
    seen_nodes = {}
    seen_edges = {}
    stack = [(seed, None)]
    n = 0
    while stack:
        nd, parent = stack.pop()
        n += 1
        if n > 10000:
            probs.append("more than 10000 nodes reached (cycle?)")
            break
        if id(nd) in seen_nodes:
            probs.append("node reached twice (shared or cyclic)")
            continue
        seen_nodes[id(nd)] = nd
        if nd._parent_node is not parent:
            probs.append("node._parent_node is not the node listing it as child")
        e = nd._edge
        if e is None:
            probs.append("node has no edge")
        else:
            if id(e) in seen_edges:
                probs.append("edge shared by two nodes")
            seen_edges[id(e)] = e
            if e._head_node is not nd:
                probs.append("edge.head_node is not its node")
            try:
                tail = e.tail_node
            except Exception as ex:  # pragma: no cover
                tail = ex
            if tail is not parent:
                probs.append("edge.tail_node is not the parent")
        ch = nd._child_nodes
        if len(set(id(c) for c in ch)) != len(ch):
            probs.append("child listed twice")
        for c in ch:
            stack.append((c, nd))
    return probs


def traversal_problems(tree):
    """every iterator visits exactly the reachable node set, each once"""
    probs = []
    reach = []
    stack = [tree._seed_node]
    seen = set()
    while stack:
        nd = stack.pop()
        if id(nd) in seen:
            return ["cycle"]
        seen.add(id(nd))
        reach.append(nd)
        stack.extend(nd._child_nodes)
    ids = sorted(seen)
    leaves_ids = sorted(id(n) for n in reach if not n._child_nodes)
    for name in ("preorder_node_iter", "postorder_node_iter", "levelorder_node_iter"):
        got = [id(n) for n in itertools.islice(getattr(tree, name)(), 20000)]
        if sorted(got) != ids:
            probs.append("%s does not visit exactly the reachable nodes once" % name)
    got = [id(n) for n in itertools.islice(tree.leaf_node_iter(), 20000)]
    if sorted(got) != leaves_ids:
        probs.append("leaf_node_iter does not visit exactly the reachable leaves once")
    return probs


# ---------------------------------------------------------------------------
# self-test on hand-computed cases

def selftest():
    t = mk(((0, 1), (2, 3)), lens=1)
    assert leaves(t) == ["a", "b", "c", "d"]
    assert len(rooted_clades(t)) == 7
    assert len(unrooted_splits(t)) == 5  # 4 trivial + ab|cd (two edges, one split)
    sl, miss = split_lengths(t, False)
    assert sl[frozenset([frozenset("ab"), frozenset("cd")])] == 2
    pt = path_table(t)
    assert pt[frozenset("ab")] == (2, 2) and pt[frozenset("ac")] == (4, 4)
    # textbook RF: ((a,b),(c,d)) vs ((a,c),(b,d)) unrooted -> 2
    t2 = mk(((0, 2), (1, 3)), lens=1)
    assert len(unrooted_splits(t) ^ unrooted_splits(t2)) == 2
    ind = induced(t, {"a", "c", "d"})
    assert canon(ind) == canon(mk((0, (2, 3)), lens=[1, 2, 1, 1, 1])), (canon(ind))
    ind1 = induced(t, {"a"})
    assert ind1 == ("a", None, 3, ()), ind1
    assert total_length(t) == 7
    assert compatible_unrooted(frozenset("ab"), frozenset("cd"), frozenset("abcd"))
    assert not compatible_unrooted(frozenset("ab"), frozenset("ac"), frozenset("abcd"))
    return True


if __name__ == "__main__":
    selftest()
    print("ref ok")
