import argparse
import glob
import os
import sys

from . import runner


def props():
    here = os.path.join(runner.VERIF, "props")
    return sorted(os.path.basename(p)[:-3] for p in glob.glob(os.path.join(here, "C[0-9]*.py")))


def selftest():
    from . import universe, ref, build, budget, choice, sched, tlc
    universe.selftest()
    ref.selftest()
    build.selftest()
    budget.selftest()
    choice.selftest()
    sched.selftest()
    tlc.selftest()      # TLC on the 2-worker/2-file model: 75 states, 8 terminal trace classes
    import json
    import tempfile
    # schema validation of a dummy evidence file
    d = tempfile.mkdtemp()
    try:
        p = os.path.join(d, "e.json")
        with open(p, "w") as f:
            json.dump({"property_id": "C00", "tier": "quick", "seed": 0, "level": "exploration", "wall_s": 0.1,
                       "coverage": {"evaluations": 2, "distinct_nontrivial": 2, "rule": "x", "samples": [1]}}, f)
        err = runner.validate_evidence(p)
        assert err is None, err
    finally:
        import shutil
        shutil.rmtree(d, ignore_errors=True)
    print("selftest ok: universe, ref, build, budget, choice, sched, tlc, evidence schema; properties:", " ".join(props()))
    return 0


def main(argv=None):
    alt = os.environ.get("VERIF_DENDROPY_SRC")
    if alt:
        # development aid only (testing a check against a scratch worktree); registered
        # commands never set it, so they always import /repo/src through the editable install
        sys.path.insert(0, os.path.realpath(alt))
        import dendropy
        assert os.path.realpath(dendropy.__file__).startswith(os.path.realpath(alt)), dendropy.__file__
        print("NOTE: using dendropy from %s" % alt)
    ap = argparse.ArgumentParser(prog="verif")
    sub = ap.add_subparsers(dest="cmd")
    c = sub.add_parser("check")
    c.add_argument("prop")
    c.add_argument("--tier", default=os.environ.get("VERIF_TIER", "quick"), choices=["quick", "thorough"])
    c.add_argument("--replay", default=None)
    sub.add_parser("list")
    sub.add_parser("selftest")
    a = ap.parse_args(argv)
    if a.cmd == "list":
        print("\n".join(props()))
        return 0
    if a.cmd == "selftest":
        return selftest()
    if a.cmd == "check":
        try:
            seed = int(os.environ.get("VERIF_SEED", "0") or 0)
        except ValueError:
            seed = 0
        sys.path.insert(0, runner.VERIF)
        return runner.run_check("props." + a.prop, a.tier, seed, a.replay)
    ap.print_help()
    return 2


if __name__ == "__main__":
    sys.exit(main())
