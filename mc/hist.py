"""E2 HIST: explicit-state breadth-first search whose transition function is the
real library (DESIGN 2.3).

A *state* is represented by the shortest operation history that reaches it (the
live object is rebuilt by replaying that history from its start descriptor, so
whatever the real code leaves behind - stale caches included - is really there);
states are de-duplicated on a canonical key supplied by the property module.

The property module provides a worker function

    expand(chunk, ctx) -> list[(key, hist)]     # chunk = {"hists": [...], "depth": d, "last": bool, ...}

which, for every history in the chunk, rebuilds the state, enumerates every enabled
operation, applies it to a fresh rebuild, checks the invariants (ctx.violation), counts
one transition per applied operation, and returns the successor (key, history) pairs
(pre-deduplicated locally).  On the last level only keys are needed.
"""


def bfs(runner, funcname, starts, depth, chunk_size=8, extra=None):
    """starts: list of (key, hist).  Returns dict with per-level statistics."""
    ctx = runner.ctx
    seen = set()
    frontier = []
    for key, h in starts:
        if key not in seen:
            seen.add(key)
            frontier.append(h)
    levels = [len(frontier)]
    for d in range(depth):
        last = (d == depth - 1)
        chunks = []
        for i in range(0, len(frontier), chunk_size):
            c = {"hists": frontier[i:i + chunk_size], "depth": d, "last": last}
            if extra:
                c.update(extra)
            chunks.append(c)
        auxes = runner.map(funcname, chunks)
        new = []
        for aux in auxes:
            for key, h in (aux or ()):
                if key not in seen:
                    seen.add(key)
                    new.append(h)
        levels.append(len(new))
        frontier = new
        if not frontier:
            break
    ctx.count("states", len(seen))
    ctx.maximum("depth_completed", len(levels) - 1)
    for i, n in enumerate(levels):
        ctx.count("new_states_at_depth_%d" % i, n)
    return {"levels": levels, "states": len(seen)}
