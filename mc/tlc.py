"""E6 TLC: explore mc/tla/SumTreesPar.tla unreduced with TLC, read the labelled state
graph, and turn every terminal state (= one trace class, thanks to the history
variables) into a schedule that can be replayed on the implementation."""
import collections
import os
import re
import shutil
import subprocess
import tempfile

HERE = os.path.dirname(os.path.abspath(__file__))
SPEC = os.path.join(HERE, "tla", "SumTreesPar.tla")

_EDGE = re.compile(r'^(-?\d+) -> (-?\d+) \[label="([^"]*)"')
_NODE = re.compile(r'^(-?\d+) \[label="')


class TLCError(Exception):
    pass


def run_tlc(W, F, D, workers=2, keep=False):
    """Returns dict(states, transitions, init, edges{src: [(label, dst)]}, terminals[list of node ids])."""
    d = tempfile.mkdtemp(prefix="verif-tlc-")
    try:
        shutil.copy(SPEC, os.path.join(d, "SumTreesPar.tla"))
        with open(os.path.join(d, "SumTreesPar.cfg"), "w") as f:
            f.write("SPECIFICATION Spec\nCONSTANTS\n W = %d\n F = %d\n D = %d\nINVARIANT TypeOK\nINVARIANT AllCollectedAtEnd\n" % (W, F, D))
        dot = os.path.join(d, "graph.dot")
        cmd = ["tlc", "-workers", str(workers), "-noGenerateSpecTE", "-deadlock", "-metadir", os.path.join(d, "meta"),
               "-dump", "dot,actionlabels", dot, "SumTreesPar"]
        r = subprocess.run(cmd, cwd=d, capture_output=True, text=True, timeout=1800)
        out = r.stdout + r.stderr
        if "Model checking completed. No error has been found." not in out:
            raise TLCError("TLC did not complete cleanly:\n" + out[-3000:])
        m = re.search(r"(\d+) states generated, (\d+) distinct states found", out)
        generated, distinct = int(m.group(1)), int(m.group(2))
        edges = collections.defaultdict(list)
        nodes = []
        seen = set()
        init = None
        with open(dot) as f:
            for line in f:
                m = _EDGE.match(line)
                if m:
                    edges[m.group(1)].append((m.group(3), m.group(2)))
                    continue
                m = _NODE.match(line)
                if m:
                    nid = m.group(1)
                    if nid not in seen:
                        seen.add(nid)
                        nodes.append(nid)
                        if init is None and "style = filled" in line:
                            init = nid
        terminals = [n for n in nodes if not [1 for lab, dst in edges.get(n, ()) if dst != n]]
        ntrans = sum(len(v) for v in edges.values())
        return {"states": distinct, "generated": generated, "transitions": ntrans, "init": init, "edges": edges,
                "terminals": terminals, "nodes": len(nodes)}
    finally:
        if not keep:
            shutil.rmtree(d, ignore_errors=True)


def paths_to_terminals(g):
    """One shortest path (list of action labels) from the initial state to every terminal state."""
    pred = {g["init"]: None}
    dq = collections.deque([g["init"]])
    while dq:
        n = dq.popleft()
        for lab, dst in g["edges"].get(n, ()):
            if dst not in pred:
                pred[dst] = (n, lab)
                dq.append(dst)
    out = []
    for t in g["terminals"]:
        if t not in pred:
            raise TLCError("terminal state unreachable in dumped graph")
        labs = []
        n = t
        while pred[n] is not None:
            n, lab = pred[n]
            labs.append(lab)
        labs.reverse()
        out.append(labs)
    return out


_LAB = re.compile(r"^(\w+?)(?:\((\d+)\))?$")


def parse_label(lab):
    m = _LAB.match(lab)
    if not m:
        raise TLCError("unexpected action label %r" % lab)
    return m.group(1), (int(m.group(2)) if m.group(2) else None)


def class_of_labels(labels, F):
    """trace class (same canonical form as Execution.outcome_class, files as 1-based indices)"""
    handed = []
    per = {}
    posts = []
    nxt = 1
    for lab in labels:
        a, w = parse_label(lab)
        if a == "Poll":
            handed.append((w, nxt))
            per.setdefault(w, []).append(nxt)
            nxt += 1
        elif a == "PollEmpty":
            per.setdefault(w, []).append("Empty")
        elif a == "Spurious":
            per.setdefault(w, []).append("SpuriousEmpty")
        elif a == "Post":
            posts.append(w)
    return (tuple(handed), tuple(sorted((t, tuple(v)) for t, v in per.items())), tuple(posts))


def selftest():
    g = run_tlc(2, 2, 0)
    assert g["states"] == 75, g["states"]
    ps = paths_to_terminals(g)
    cl = set(class_of_labels(p, 2) for p in ps)
    assert len(cl) == len(ps) == 8, (len(cl), len(ps))
    return True


if __name__ == "__main__":
    selftest()
    print("tlc ok")
