"""E4 CHOICE: the random generator as environment (DESIGN 2.3, C18).

`ChoiceRNG` is a `random.Random` subclass in which every draw is a *choice point*
with a finite menu; a run is driven by a prefix of choices (then default = menu
entry 0).  `explore` enumerates every choice sequence with at most `bound`
deviations from the default (iterative deviation bounding: executions always run to
completion)."""
import math
import random
import sys

BPF = 53
MAXSIZE = 1 << BPF


class Diverged(Exception):
    """a prefix asked for a menu entry that does not exist: replay diverged"""


class ChoiceRNG(random.Random):
    def __init__(self, prefix=(), frozen_sites=()):
        random.Random.__init__(self, 0)
        self.frozen_sites = frozenset(frozen_sites)   # sites answered with their default, not choice points
        self.prefix = tuple(prefix)
        self.points = []     # (site, menu size)
        self.choices = []
        self.fallback_sites = set()

    # -- the single mechanism ----------------------------------------------------
    def _pick(self, site, n):
        if site in self.frozen_sites:
            return 0
        i = len(self.choices)
        c = self.prefix[i] if i < len(self.prefix) else 0
        if c >= n:
            raise Diverged("choice %d at point %d (%s) but menu has %d entries" % (c, i, site, n))
        self.points.append((site, n))
        self.choices.append(c)
        return c

    # -- integer draws: shuffle, sample, choice, randrange, randint ---------------
    def _randbelow(self, n):
        if n <= 1:
            return 0
        return self._pick("randbelow", n)

    # -- float draws ----------------------------------------------------------------
    def random(self):
        fr = sys._getframe(1)
        name = fr.f_code.co_name
        if name == "expovariate":
            return (0.1, 0.9)[self._pick("expovariate", 2)]
        if name in ("weighted_index_choice", "sample_multinomial"):
            w = fr.f_locals.get("weights", fr.f_locals.get("probs"))
            w = list(w)
            tot = float(sum(w))
            idx = [i for i, x in enumerate(w) if x > 0]
            if tot > 0 and idx:
                k = idx[self._pick(name, len(idx))]
                lo = sum(w[:k])
                return (lo + 0.5 * w[k]) / tot
        self.fallback_sites.add(name)
        return (0.05, 0.5, 0.95)[self._pick("random@" + name, 3)]

    def gauss(self, mu=0.0, sigma=1.0):
        if sigma == 0:
            return mu  # value independent of the answer: no choice (sound reduction)
        return mu + sigma * (0.0, -1.0, 1.0)[self._pick("gauss", 3)]

    def normalvariate(self, mu=0.0, sigma=1.0):
        return self.gauss(mu, sigma)

    def getrandbits(self, k):  # not used once _randbelow is ours; trap stray use
        raise RuntimeError("getrandbits reached: a draw escaped the choice engine")

    def seed(self, *a, **k):
        return None


def deviations(choices):
    return sum(1 for c in choices if c)


def explore(run, bound, prefix=(), on_execution=None, max_executions=None):
    """run(prefix) -> (rng, result).  Enumerates every choice sequence extending `prefix`
    with at most `bound` deviations in total.  on_execution(rng, result) is called once
    per execution.  Returns number of executions, or raises if capped."""
    stack = [tuple(prefix)]
    n = 0
    while stack:
        p = stack.pop()
        rng, result = run(p)
        n += 1
        if on_execution is not None:
            on_execution(rng, result)
        if max_executions is not None and n > max_executions:
            raise RuntimeError("execution cap %d hit" % max_executions)
        ch = rng.choices
        if tuple(ch[:len(p)]) != p[:len(ch)]:
            raise Diverged("replay of prefix %r produced %r" % (p, ch))
        base = deviations(ch[:len(p)])
        cost = base
        for i in range(len(p), len(ch)):
            # choices beyond the prefix are all default (0)
            if cost + 1 > bound:
                break
            site, m = rng.points[i]
            for alt in range(1, m):
                stack.append(tuple(ch[:i]) + (alt,))
    return n


def explore_prefix(run, K, prefix=(), on_execution=None):
    """Enumerates EVERY choice sequence over the first K choice points (full menus, no deviation
    bound); beyond point K the default answer is taken.  Extends `prefix` only at positions
    >= len(prefix).  Returns the number of executions."""
    stack = [tuple(prefix)]
    n = 0
    while stack:
        p = stack.pop()
        rng, result = run(p)
        n += 1
        if on_execution is not None:
            on_execution(rng, result)
        ch = rng.choices
        if tuple(ch[:len(p)]) != p[:len(ch)]:
            raise Diverged("replay of prefix %r produced %r" % (p, ch))
        for i in range(len(p), min(K, len(ch))):
            site, m = rng.points[i]
            for alt in range(1, m):
                stack.append(tuple(ch[:i]) + (alt,))
    return n


def selftest():
    r = ChoiceRNG((1, 0, 1))
    xs = [0, 1, 2]
    r.shuffle(xs)
    a = r.expovariate(2.0)
    assert a > 0
    assert r.gauss(0, 0) == 0
    c = r.choice([5, 6, 7])
    assert c in (5, 6, 7)
    # exploration count: two binary points, bound 1 -> 3 executions; bound 2 -> 4

    def run(p):
        g = ChoiceRNG(p)
        return g, (g.expovariate(1.0), g.expovariate(1.0))
    assert explore(run, 0) == 1
    assert explore(run, 1) == 3
    assert explore(run, 2) == 4
    assert explore_prefix(run, 1) == 2 and explore_prefix(run, 2) == 4
    return True


if __name__ == "__main__":
    selftest()
    print("choice ok")
