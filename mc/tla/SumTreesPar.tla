---------------------------- MODULE SumTreesPar ----------------------------
(* Work-queue protocol of SumTrees' parallel mode (dendropy/application/sumtrees.py:
   TreeProcessor.parallel_analyze_trees / TreeAnalysisWorker.run).

   W workers share a work queue holding files 1..F.  A worker polls the queue with
   get_nowait: it either receives the head file (and reads it - worker-local, merged
   into the poll step), or is answered Empty and then posts its (possibly empty) tree
   array on the results queue and exits.  The master collects results in arrival order.
   Spurious(w) is the environment deviation "get_nowait answers Empty although items
   are still in flight" (documented behaviour of multiprocessing.Queue), bounded by D.

   handed / polls / posts are history variables: they record the trace class of a
   behaviour (files in hand-out order, each worker's own poll answers, arrival order),
   so every terminal state of the model is exactly one trace class.  Actions are
   instantiated per worker (Poll1, Poll2, ...) so that the labelled state graph dumped
   by TLC names the worker on every edge and a schedule can be read off any path. *)
EXTENDS Naturals, Sequences

CONSTANTS W, F, D

VARIABLES wq, pc, results, collected, devs, handed, polls, posts

vars == <<wq, pc, results, collected, devs, handed, polls, posts>>

Workers == 1..W

Init == /\ wq = [i \in 1..F |-> i]
        /\ pc = [w \in Workers |-> "poll"]
        /\ results = <<>>
        /\ collected = 0
        /\ devs = 0
        /\ handed = <<>>
        /\ polls = [w \in Workers |-> <<>>]
        /\ posts = <<>>

Poll(w) == /\ w \in Workers
           /\ pc[w] = "poll"
           /\ wq /= <<>>
           /\ wq' = Tail(wq)
           /\ handed' = Append(handed, <<w, Head(wq)>>)
           /\ polls' = [polls EXCEPT ![w] = Append(@, Head(wq))]
           /\ UNCHANGED <<pc, results, collected, devs, posts>>

PollEmpty(w) == /\ w \in Workers
                /\ pc[w] = "poll"
                /\ wq = <<>>
                /\ pc' = [pc EXCEPT ![w] = "post"]
                /\ polls' = [polls EXCEPT ![w] = Append(@, 0)]
                /\ UNCHANGED <<wq, results, collected, devs, handed, posts>>

Spurious(w) == /\ w \in Workers
               /\ pc[w] = "poll"
               /\ wq /= <<>>
               /\ devs < D
               /\ devs' = devs + 1
               /\ pc' = [pc EXCEPT ![w] = "post"]
               /\ polls' = [polls EXCEPT ![w] = Append(@, F + 1)]
               /\ UNCHANGED <<wq, results, collected, handed, posts>>

Post(w) == /\ w \in Workers
           /\ pc[w] = "post"
           /\ pc' = [pc EXCEPT ![w] = "done"]
           /\ results' = Append(results, w)
           /\ posts' = Append(posts, w)
           /\ UNCHANGED <<wq, collected, devs, handed, polls>>

Collect == /\ results /= <<>>
           /\ results' = Tail(results)
           /\ collected' = collected + 1
           /\ UNCHANGED <<wq, pc, devs, handed, polls, posts>>

Poll1 == Poll(1)
Poll2 == Poll(2)
Poll3 == Poll(3)
Poll4 == Poll(4)
PollEmpty1 == PollEmpty(1)
PollEmpty2 == PollEmpty(2)
PollEmpty3 == PollEmpty(3)
PollEmpty4 == PollEmpty(4)
Spurious1 == Spurious(1)
Spurious2 == Spurious(2)
Spurious3 == Spurious(3)
Spurious4 == Spurious(4)
Post1 == Post(1)
Post2 == Post(2)
Post3 == Post(3)
Post4 == Post(4)

Next == \/ Poll1 \/ Poll2 \/ Poll3 \/ Poll4
        \/ PollEmpty1 \/ PollEmpty2 \/ PollEmpty3 \/ PollEmpty4
        \/ Spurious1 \/ Spurious2 \/ Spurious3 \/ Spurious4
        \/ Post1 \/ Post2 \/ Post3 \/ Post4
        \/ Collect

Spec == Init /\ [][Next]_vars

(* Safety properties of the protocol itself (checked by TLC on every state). *)
TypeOK == /\ collected \in 0..W
          /\ devs \in 0..D
          /\ Len(results) + collected = Len(posts)

Done == /\ \A w \in Workers : pc[w] = "done"
        /\ results = <<>>

(* With no deviation every file is read by someone and every worker reports once. *)
AllCollectedAtEnd == Done => (collected = W /\ (D = 0 => Len(handed) = F))
=============================================================================
