"""Generate /verif/MANIFEST.json from the property modules (run: ./verif-manifest)."""
import importlib
import json
import os
import sys

from . import runner
from .cli import props

ENGINES = [
    {"name": "E1-ENUM", "path": "mc/runner.py + mc/universe.py", "kind_free_text": "bounded-exhaustive enumeration of inputs/configurations on the real code, 16-way parallel"},
    {"name": "E2-HIST", "path": "mc/hist.py", "kind_free_text": "explicit-state BFS over operation histories; transition function = the real library method; states = canonical snapshots"},
    {"name": "E3-SCHED", "path": "mc/sched.py + mc/sched_explore.py + mc/sumtrees_harness.py", "kind_free_text": "stateless exploration of all interleavings of the real SumTrees master/worker code under a cooperative scheduler replacing multiprocessing"},
    {"name": "E4-CHOICE", "path": "mc/choice.py", "kind_free_text": "exhaustive exploration of RNG answer sequences (environment choices) with iterative deviation bounding"},
    {"name": "E5-FAULT", "path": "props/C20.py + mc/budget.py", "kind_free_text": "every prefix / single edit / short string of documents through every reader entry point under a deterministic step budget"},
    {"name": "E6-TLC", "path": "mc/tla/SumTreesPar.tla + mc/tlc.py", "kind_free_text": "TLA+ model of the SumTrees work-queue protocol explored by TLC; every model trace class replayed on the implementation via E3"},
]


def main():
    checks = []
    serves = {}
    have = set()
    sys.path.insert(0, runner.VERIF)
    for p in props():
        mod = importlib.import_module("props." + p)
        m = getattr(mod, "MANIFEST", {})
        have.add(mod.ID)
        eng = m.get("engine", "E1-ENUM")
        for e in eng.split("+"):
            serves.setdefault(e.strip(), []).append(mod.ID)
        checks.append({
            "property_id": mod.ID,
            "quick_cmd": "./verif check %s --tier quick" % mod.ID,
            "thorough_cmd": "./verif check %s --tier thorough" % mod.ID,
            "evidence_file": "/verif/evidence/%s.json" % mod.ID,
            "replay_cmd_template": "./verif check %s --replay {path}" % mod.ID,
            "engine": eng,
            "level_claimed": {
                "category": mod.LEVEL,
                "text": m.get("text", mod.RULE),
                "design_ref": m.get("design_ref", "DESIGN.md section 3, %s" % mod.ID),
            },
            "level_note": m.get("note", "; ".join(getattr(mod, "ASSUMPTIONS", [])) or "reference model in mc/ref.py is trusted"),
            "technique": m.get("technique", "bounded-exhaustive enumeration on the real implementation against a reference model"),
        })
    with open(os.path.join(runner.VERIF, "properties.jsonl")) as f:
        allp = [json.loads(l)["id"] for l in f if l.strip()]
    na_reasons = {}
    nap = os.path.join(runner.VERIF, "not_applicable.json")
    if os.path.exists(nap):
        na_reasons = json.load(open(nap))
    na = [{"property_id": p, "reason": na_reasons.get(p, "check not built yet in this revision (planned: see DESIGN.md section 3); not claimed")}
          for p in allp if p not in have]
    engines = [dict(e, serves_properties=sorted(set(serves.get(e["name"], [])))) for e in ENGINES]
    man = {
        "version": 1,
        "setup_cmd": "./verif selftest",
        "hooks": {
            "guard": "DENDROPY_VERIF",
            "enable": "no source hooks: /repo is an editable install, checks import /repo/src/dendropy as it is; all interception (step budget via sys.monitoring, scheduler shim for multiprocessing, RNG subclass) is done from the harness side",
            "baseline_off_cmd": "cd /repo && /venv/bin/python -m pytest -ra -q -p no:cacheprovider --timeout=900 --continue-on-collection-errors",
            "source_commits": [],
            "add_only": True,
        },
        "engines": engines,
        "checks": checks,
        "not_applicable": na,
        "notes": "All checks are bounded-exhaustive (model-checking family): see DESIGN.md. known_findings.json lists genuine defects that are recorded rather than repaired, and fixed ones.",
    }
    with open(os.path.join(runner.VERIF, "MANIFEST.json"), "w") as f:
        json.dump(man, f, indent=1)
    print("MANIFEST.json: %d checks, %d not applicable" % (len(checks), len(na)))


if __name__ == "__main__":
    main()
