"""Check runner: parallel exhaustive enumeration, violation triage against
known_findings.json, replay artefacts, evidence files (DESIGN 2.3, 2.5, 2.6)."""
import concurrent.futures
import hashlib
import importlib
import json
import multiprocessing
import os
import resource
import subprocess
import sys
import time
import traceback

VERIF = os.path.dirname(os.path.dirname(os.path.abspath(__file__)))
# VERIF_OUT_DIR: development aid (runs against scratch worktrees must not clobber /verif/evidence)
_OUT = os.environ.get("VERIF_OUT_DIR") or VERIF
EVIDENCE_DIR = os.path.join(_OUT, "evidence")
REPLAY_DIR = os.path.join(_OUT, "replays")
KNOWN = os.path.join(VERIF, "known_findings.json")
SCHEMA = "/root/.vp/EVIDENCE.schema.json"
NPROC = int(os.environ.get("VERIF_NPROC", "16"))
MAX_KEPT_PER_SIG = 3


class Ctx(object):
    """Per-chunk (and merged) record of what was explored and what failed."""

    def __init__(self):
        self.evals = 0
        self.keys = set()
        self.viol = {}       # signature -> {"count": n, "first": [violation dicts]}
        self.counters = {}
        self.samples = []
        self.maxima = {}

    # -- coverage -----------------------------------------------------------
    def case(self, key, nontrivial=True, n=1):
        """One case evaluated.  `key` identifies it (distinctness is measured on it)."""
        self.evals += n
        if nontrivial:
            self.keys.add(hash(key))

    def count(self, name, n=1):
        self.counters[name] = self.counters.get(name, 0) + n

    def maximum(self, name, v):
        if v > self.maxima.get(name, float("-inf")):
            self.maxima[name] = v

    def sample(self, obj, limit=4):
        if len(self.samples) < limit:
            self.samples.append(obj)

    # -- violations ----------------------------------------------------------
    def violation(self, signature, message, case):
        ent = self.viol.setdefault(signature, {"count": 0, "first": []})
        ent["count"] += 1
        if len(ent["first"]) < MAX_KEPT_PER_SIG:
            ent["first"].append({"signature": signature, "message": message, "case": case})

    def merge(self, other):
        self.evals += other.evals
        self.keys |= other.keys
        for k, v in other.counters.items():
            self.counters[k] = self.counters.get(k, 0) + v
        for k, v in other.maxima.items():
            self.maximum(k, v)
        for s in other.samples:
            if len(self.samples) < 64:
                self.samples.append(s)
        for sig, ent in other.viol.items():
            mine = self.viol.setdefault(sig, {"count": 0, "first": []})
            mine["count"] += ent["count"]
            for v in ent["first"]:
                mine["first"].append(v)
            # keep the smallest witnesses
            mine["first"].sort(key=lambda v: len(json.dumps(v["case"], default=str)))
            del mine["first"][MAX_KEPT_PER_SIG:]


def _worker_init():
    try:
        lim = 6 * 1024 ** 3
        resource.setrlimit(resource.RLIMIT_AS, (lim, lim))
    except Exception:
        pass
    sys.setrecursionlimit(3000)
    dbg = os.environ.get("VERIF_DEBUG_DIR")
    if dbg:
        import faulthandler
        f = open(os.path.join(dbg, "fault-%d.log" % os.getpid()), "w")
        faulthandler.enable(file=f, all_threads=True)
        def hook(tp, val, tb, _f=f):
            traceback.print_exception(tp, val, tb, file=_f)
            _f.flush()
        sys.excepthook = hook


def _call(modname, fname, chunk):
    mod = importlib.import_module(modname)
    ctx = Ctx()
    try:
        aux = getattr(mod, fname)(chunk, ctx)
    except BaseException as e:  # harness error inside a chunk: fatal, not a verdict
        return ("error", "%s in %s(%r):\n%s" % (type(e).__name__, fname, chunk, traceback.format_exc()), None)
    for ent in ctx.viol.values():
        for v in ent["first"]:
            v.setdefault("_chunk", (fname, chunk))
    return ("ok", ctx, aux)


def _call_echo(modname, fname, big, small):
    """Order-of-evaluation probe: evaluate the chunk of the largest inputs, then - in the same
    process - the chunk of the smallest ones again.  Only violations of the second run are
    returned (its coverage was already counted by the ordinary run); a library that keeps state
    between calls at module or class level (a memo that grows with the largest input seen, a
    hoisted scratch buffer) answers differently here than in the ordinary ascending order."""
    st, c, aux = _call(modname, fname, big)
    if st != "ok":
        return (st, c, aux)
    st, c, aux = _call(modname, fname, small)
    if st != "ok":
        return (st, c, aux)
    out = Ctx()
    out.viol = c.viol
    for ent in out.viol.values():
        for v in ent["first"]:
            v["_chunk"] = ("__echo__", (fname, big, small))
    out.counters["order_probe_evaluations"] = c.evals
    return ("ok", out, None)


_RERUN_CODE = r'''
import os, pickle, sys
sys.path.insert(0, sys.argv[2])
alt = os.environ.get("VERIF_DENDROPY_SRC")
if alt:
    sys.path.insert(0, os.path.realpath(alt))
from mc import runner
modname, fname, chunk, sig = pickle.load(open(sys.argv[1], "rb"))
for k in (1, 2):
    if fname == "__echo__":
        st, c, aux = runner._call_echo(modname, *chunk)
    else:
        st, c, aux = runner._call(modname, fname, chunk)
    if st == "ok" and sig in c.viol:
        print("REPRODUCED-IN-FRESH-PROCESS run=%d" % k)
        break
'''


def rerun_chunk_in_fresh_process(modname, fname, chunk, sig, timeout=1800):
    """A violation whose single witness does not reproduce in isolation may depend on what the
    same process evaluated before (state kept at module or class level by the library).  The
    chunk that reported it is re-run from its beginning in a fresh interpreter - once, and
    once more after itself; exploration inside a chunk is deterministic, so a genuine
    history-dependent violation shows again and the chunk is its replayable artefact."""
    import pickle
    import tempfile
    d = tempfile.mkdtemp(prefix="verif-rerun-")
    try:
        path = os.path.join(d, "chunk.pkl")
        with open(path, "wb") as f:
            pickle.dump((modname, fname, chunk, sig), f)
        r = subprocess.run([sys.executable, "-c", _RERUN_CODE, path, VERIF], capture_output=True, text=True,
                           timeout=timeout, cwd=VERIF)
        return "REPRODUCED-IN-FRESH-PROCESS" in r.stdout
    except Exception:
        return False
    finally:
        import shutil
        shutil.rmtree(d, ignore_errors=True)


class HarnessError(Exception):
    pass


class Runner(object):
    def __init__(self, mod, tier, seed):
        self.mod = mod
        self.tier = tier
        self.seed = seed
        self.ctx = Ctx()
        self.pool = None
        self.notes = []

    def _pool(self):
        if self.pool is None:
            mpctx = multiprocessing.get_context("fork")
            self.pool = concurrent.futures.ProcessPoolExecutor(
                max_workers=NPROC, mp_context=mpctx, initializer=_worker_init)
        return self.pool

    def map(self, fname, chunks, serial=False):
        """Run mod.<fname>(chunk, ctx) for every chunk (in parallel), merge coverage and
        violations, return the list of auxiliary return values in chunk order."""
        chunks = list(chunks)
        order = list(range(len(chunks)))
        if self.seed and len(order) > 1:
            k = self.seed % len(order)
            order = order[k:] + order[:k]
        out = [None] * len(chunks)
        if serial or NPROC <= 1 or len(chunks) <= 1:
            for i in order:
                st, c, aux = _call(self.mod.__name__, fname, chunks[i])
                if st != "ok":
                    raise HarnessError(c)
                self.ctx.merge(c)
                out[i] = aux
            return out
        pool = self._pool()
        futs = {}
        if len(chunks) >= 4 and not getattr(self.mod, "NO_ORDER_PROBE", False):
            # one extra task: [largest chunk; smallest chunk] in one process (see _call_echo)
            futs[pool.submit(_call_echo, self.mod.__name__, fname, chunks[-1], chunks[0])] = None
        futs.update({pool.submit(_call, self.mod.__name__, fname, chunks[i]): i for i in order})
        try:
            for f in concurrent.futures.as_completed(futs):
                st, c, aux = f.result()
                if st != "ok":
                    raise HarnessError(c)
                self.ctx.merge(c)
                if futs[f] is not None:
                    out[futs[f]] = aux
        except concurrent.futures.process.BrokenProcessPool as e:
            raise HarnessError("worker process died: %s" % e)
        return out

    def close(self):
        if self.pool is not None:
            self.pool.shutdown(wait=False, cancel_futures=True)
            self.pool = None


# ---------------------------------------------------------------------------

def load_known(pid):
    if not os.path.exists(KNOWN):
        return {}
    with open(KNOWN) as f:
        data = json.load(f)
    out = {}
    for ent in data.get("findings", []):
        if ent.get("property") == pid and not ent.get("fixed"):
            out[ent["signature"]] = ent
    return out


def _jsonable(o):
    if isinstance(o, (set, frozenset)):
        return sorted(_jsonable(x) for x in o)
    if isinstance(o, tuple):
        return [_jsonable(x) for x in o]
    if isinstance(o, list):
        return [_jsonable(x) for x in o]
    if isinstance(o, dict):
        return {str(k): _jsonable(v) for k, v in o.items()}
    if isinstance(o, (str, int, float, bool)) or o is None:
        return o
    return repr(o)


def write_replay(pid, v):
    d = os.path.join(REPLAY_DIR, pid)
    os.makedirs(d, exist_ok=True)
    body = {"property": pid, "signature": v["signature"], "message": v["message"],
            "case": _jsonable(v["case"]),
            "how_to_replay": "cd /verif && ./verif check %s --replay <this file>" % pid}
    txt = json.dumps(body, indent=1, sort_keys=True)
    h = hashlib.sha1((pid + "|" + v["signature"]).encode()).hexdigest()[:16]
    path = os.path.join(d, h + ".json")
    with open(path, "w") as f:
        f.write(txt)
    return path


def validate_evidence(path):
    """Validate with jsonschema from the tooling venv when available."""
    code = ("import json,sys,jsonschema;"
            "jsonschema.validate(json.load(open(sys.argv[1])), json.load(open(sys.argv[2])))")
    if not os.path.exists(SCHEMA):
        return None
    try:
        r = subprocess.run(["python3-vt", "-c", code, path, SCHEMA], capture_output=True, text=True, timeout=60)
    except Exception:
        return None
    if r.returncode != 0:
        return r.stderr[-2000:]
    return None


def run_check(modname, tier="quick", seed=0, replay=None):
    mod = importlib.import_module(modname)
    pid = mod.ID
    t0 = time.time()
    runner = Runner(mod, tier, seed)
    try:
        if replay is not None:
            with open(replay) as f:
                body = json.load(f)
            case = body["case"] if "case" in body else body
            if isinstance(case, dict) and case.get("kind") == "chunk-rerun":
                # history-dependent violation: re-run the recorded chunk from its beginning (twice)
                import base64
                import pickle
                fname, chunk = pickle.loads(base64.b64decode(case["chunk_pickle_b64"]))
                for _ in (1, 2):
                    if fname == "__echo__":
                        st, c, aux = _call_echo(mod.__name__, *chunk)
                    else:
                        st, c, aux = _call(mod.__name__, fname, chunk)
                    if st != "ok":
                        raise HarnessError(c)
                    runner.ctx.merge(c)
                    if case.get("signature") in c.viol:
                        break
            else:
                mod.replay(case, runner.ctx)
        elif hasattr(mod, "explore"):
            mod.explore(tier, runner)
        else:
            aux = runner.map("run_chunk", mod.chunks(tier))
            if hasattr(mod, "post"):
                mod.post(tier, aux, runner.ctx)
    except HarnessError as e:
        runner.close()
        print("HARNESS-ERROR property=%s\n%s" % (pid, e))
        return 2
    ctx = runner.ctx
    # -- triage ---------------------------------------------------------------
    known = load_known(pid)
    new = []
    known_hit = []
    for sig in sorted(ctx.viol):
        ent = ctx.viol[sig]
        if sig in known:
            known_hit.append((sig, ent))
        else:
            new.append((sig, ent))
    # confirm every new violation by replaying its witness in this process
    confirmed, flaky, history_dependent = [], [], []
    for sig, ent in new:
        v = ent["first"][0]
        if replay is None and hasattr(mod, "replay") and not getattr(mod, "NO_REPLAY_CONFIRM", False):
            c2 = Ctx()
            try:
                mod.replay(json.loads(json.dumps(_jsonable(v["case"]))), c2)
            except Exception as e:
                c2.violation("replay-crashed", repr(e), v["case"])
            if sig in c2.viol:
                confirmed.append((sig, ent))
            elif v.get("_chunk") is not None and rerun_chunk_in_fresh_process(
                    mod.__name__, v["_chunk"][0], v["_chunk"][1], sig):
                v["message"] += ("  [history-dependent: the single witness passes in isolation, but re-running the "
                                 "chunk that reported it from its beginning in a fresh interpreter reports it again; "
                                 "the replay file carries the chunk]")
                import base64
                import pickle
                v["case"] = {"kind": "chunk-rerun", "function": v["_chunk"][0], "chunk": _jsonable(v["_chunk"][1]),
                             "chunk_pickle_b64": base64.b64encode(pickle.dumps(tuple(v["_chunk"]))).decode("ascii"),
                             "signature": sig, "witness": _jsonable(v["case"])}
                history_dependent.append((sig, ent))
            else:
                flaky.append((sig, ent, sorted(c2.viol)))
        else:
            confirmed.append((sig, ent))
    runner.close()
    for sig, ent in known_hit:
        print("KNOWN-FINDING: property=%s %s (%d cases) %s" % (
            pid, sig, ent["count"], known[sig].get("description", "")))
    rc = 0
    for sig, ent in confirmed:
        v = ent["first"][0]
        path = write_replay(pid, v)
        print("VIOLATION property=%s replay=%s" % (pid, path))
        print("  signature: %s  (%d cases)" % (sig, ent["count"]))
        print("  %s" % (v["message"],))
        rc = 1
    for sig, ent in history_dependent:
        v = ent["first"][0]
        path = write_replay(pid, v)
        print("VIOLATION property=%s replay=%s" % (pid, path))
        print("  signature: %s  (%d cases)" % (sig, ent["count"]))
        print("  %s" % (v["message"],))
        rc = 1
    confirmed = confirmed + history_dependent
    for sig, ent, got in flaky:
        print("HARNESS-WARNING property=%s non-reproducible violation %s (replay gave %s): %s" % (
            pid, sig, got, ent["first"][0]["message"]))
        print("  case: %s" % json.dumps(_jsonable(ent["first"][0]["case"]))[:2000])
        if rc == 0:
            rc = 3  # nothing confirmed, something unexplained: the check itself needs attention
    wall = time.time() - t0
    if replay is None:
        write_evidence(mod, tier, seed, ctx, wall, len(confirmed), [s for s, _ in known_hit], runner.notes)
    nk = len(ctx.keys)
    print("%s tier=%s seed=%d evaluations=%d distinct_nontrivial=%d violations=%d known=%d wall=%.1fs %s" % (
        pid, tier, seed, ctx.evals, nk, len(confirmed), len(known_hit), wall,
        " ".join("%s=%s" % kv for kv in sorted(ctx.counters.items()))))
    return rc


def write_evidence(mod, tier, seed, ctx, wall, nviol, known_sigs, notes):
    os.makedirs(EVIDENCE_DIR, exist_ok=True)
    samples = ctx.samples
    if samples:
        k = seed % len(samples)
        samples = (samples[k:] + samples[:k])[:6]
    cov = {
        "evaluations": ctx.evals,
        "distinct_nontrivial": len(ctx.keys),
        "rule": getattr(mod, "RULE", ""),
        "samples": _jsonable(samples) or ["(no sample recorded)"],
        "exhaustive": bool(getattr(mod, "EXHAUSTIVE", True)),
        "bounds": _jsonable(mod.bounds(tier)) if hasattr(mod, "bounds") else None,
        "counters": dict(sorted(ctx.counters.items())),
        "maxima": dict(sorted(ctx.maxima.items())),
        "known_findings_observed": known_sigs,
    }
    if notes:
        cov["notes"] = notes
    level = getattr(mod, "LEVEL", "exploration")
    if level == "model_checking":
        cov["states"] = int(ctx.counters.get("states", 0))
        cov["transitions"] = int(ctx.counters.get("transitions", 0))
        cov["traces_validated_against_impl"] = int(ctx.counters.get("traces_validated_against_impl",
                                                                     ctx.counters.get("transitions", 0)))
    ev = {
        "property_id": mod.ID,
        "tier": tier,
        "seed": int(seed),
        "level": level,
        "coverage": cov,
        "assumptions": list(getattr(mod, "ASSUMPTIONS", [])),
        "wall_s": round(wall, 2),
        "violations": int(nviol),
    }
    path = os.path.join(EVIDENCE_DIR, mod.ID + ".json")
    with open(path, "w") as f:
        json.dump(ev, f, indent=1, sort_keys=True)
    err = validate_evidence(path)
    if err:
        print("HARNESS-WARNING evidence file does not validate: %s" % err)
    return path
