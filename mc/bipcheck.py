"""Definition-level check of a tree's bipartition data (shared by C03 and others):
what a fresh structure-preserving encoding would produce, computed from primitive
links and the taxon -> bit map of the namespace *as recorded by the harness*."""


def expected_masks(tree, bit):
    masks = {}

    def rec(nd):
        if not nd._child_nodes:
            m = (1 << bit[nd.taxon._label]) if nd.taxon is not None else 0
        else:
            m = 0
            for c in nd._child_nodes:
                m |= rec(c)
        masks[id(nd._edge)] = m
        return m
    total = rec(tree._seed_node)
    return masks, total


def normalise(mask, total):
    low = total & (-total)
    if mask & low:
        return (~mask) & total
    return mask & total


def encoding_problems(tree, bit):
    """[] if every reachable edge carries exactly the bipartition a fresh encoding of
    the present structure would give and tree.bipartition_encoding lists exactly those."""
    probs = []
    masks, total = expected_masks(tree, bit)
    is_rooted = bool(tree._is_rooted)
    edges = []
    stack = [tree._seed_node]
    while stack:
        nd = stack.pop()
        edges.append(nd._edge)
        stack.extend(nd._child_nodes)
    for e in edges:
        bp = e._bipartition
        want = masks[id(e)]
        if bp is None:
            probs.append("edge without bipartition")
            continue
        if bp._leafset_bitmask != want:
            probs.append("stale leafset bitmask %s (structure gives %s)" % (bin(bp._leafset_bitmask or 0), bin(want)))
            continue
        ws = want if is_rooted else normalise(want, total)
        if bp._split_bitmask != ws:
            probs.append("stale split bitmask %s (definition gives %s)" % (
                bin(bp._split_bitmask) if bp._split_bitmask is not None else None, bin(ws)))
    enc = tree.bipartition_encoding
    if enc is None:
        probs.append("bipartition_encoding is None")
    else:
        a = sorted((b._leafset_bitmask, b._split_bitmask) for b in enc)
        b = sorted((e._bipartition._leafset_bitmask, e._bipartition._split_bitmask) for e in edges if e._bipartition is not None)
        if a != b:
            probs.append("bipartition_encoding list (%d entries) differs from the bipartitions of the %d edges" % (len(enc), len(edges)))
    return probs
