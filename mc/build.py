"""Materialise universe items as dendropy objects through the node API only
(DESIGN 2.1): no parser, no library copy."""
import dendropy
from dendropy.datamodel.treemodel import Node

NS_CONFIGS = ["exact", "extra_low", "extra_high", "removed_low", "reversed", "sorted_after"]


def make_namespace(labels, config="exact"):
    """Returns (namespace, bit) where bit maps label -> accession index as recorded
    by the harness (independent of TaxonNamespace.taxon_bitmask).  Labels of taxa
    not on any leaf start with '_'."""
    ns = dendropy.TaxonNamespace()
    bit = {}
    n = [0]

    def add(l):
        ns.add_taxon(dendropy.Taxon(label=l))
        bit[l] = n[0]
        n[0] += 1
    if config == "exact":
        for l in labels:
            add(l)
    elif config == "extra_low":
        add("_lo")
        for l in labels:
            add(l)
    elif config == "extra_high":
        for l in labels:
            add(l)
        add("_hi")
    elif config == "removed_low":
        add("_gone")
        for l in labels:
            add(l)
        ns.remove_taxon(ns._taxa[0])
        del bit["_gone"]
    elif config == "reversed":
        for l in reversed(labels):
            add(l)
    elif config == "sorted_after":
        for l in reversed(labels):
            add(l)
        add("_hi")
        ns.sort()
    else:
        raise ValueError(config)
    return ns, bit


def build_node(snode, ns, parent=None):
    nd = Node()
    if snode[0] is not None:
        t = None
        for x in ns._taxa:
            if x._label == snode[0]:
                t = x
                break
        if t is None:
            t = ns.new_taxon(label=snode[0])
        nd.taxon = t
    if snode[1] is not None:
        nd.label = snode[1]
    nd.edge.length = snode[2]
    for c in snode[3]:
        nd.add_child(build_node(c, ns))
    return nd


def build_tree(snap, ns=None):
    """snap = (is_rooted, root snapshot node)"""
    rooted, root = snap
    if ns is None:
        ns = dendropy.TaxonNamespace()
    tree = dendropy.Tree(taxon_namespace=ns)
    tree.seed_node = build_node(root, ns)
    tree.is_rooted = rooted
    return tree


def selftest():
    from . import ref
    from .universe import shapes
    for n in range(1, 5):
        for s in shapes(n):
            sn = ref.mk(s, lens=1)
            for r in (True, False, None):
                t = build_tree((r, sn))
                assert ref.snapshot(t) == (r, sn)
                assert not ref.wellformed(t)
                assert not ref.traversal_problems(t)
    for cfg in NS_CONFIGS:
        ns, bit = make_namespace(["a", "b", "c"], cfg)
        assert len(set(bit.values())) == len(bit)
    return True


if __name__ == "__main__":
    selftest()
    print("build ok")
