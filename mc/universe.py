"""Exhaustive generators for the small-scope universe of trees (DESIGN 2.1).

A *shape* is a nested tuple: a leaf is an ``int`` (index of its taxon), an internal
node is a tuple of children.  A node with a single child (a 1-tuple) is a
unifurcation.  Everything here is pure Python and never touches dendropy.
"""
import itertools

LABELS = ["a", "b", "c", "d", "e", "f", "g", "h"]

EXPECTED_COUNTS = {1: 1, 2: 1, 3: 4, 4: 26, 5: 236, 6: 2752}
EXPECTED_BINARY = {1: 1, 2: 1, 3: 3, 4: 15, 5: 105, 6: 945}


def set_partitions(items):
    """All partitions of the list `items` into non-empty blocks (blocks and the
    partition ordered by smallest element)."""
    items = list(items)
    if not items:
        yield []
        return
    first, rest = items[0], items[1:]
    for part in set_partitions(rest):
        # first in its own block
        yield [[first]] + part
        for i in range(len(part)):
            yield part[:i] + [[first] + part[i]] + part[i + 1:]


def _minleaf(s):
    while not isinstance(s, int):
        s = s[0] if s else None
        if s is None:
            return -1
    return s


def shape_leaves(s):
    if isinstance(s, int):
        return [s]
    out = []
    for c in s:
        out.extend(shape_leaves(c))
    return out


def canon_shape(s):
    """Canonical child order (sorted by smallest leaf below)."""
    if isinstance(s, int):
        return s
    return tuple(sorted((canon_shape(c) for c in s), key=lambda x: min(shape_leaves(x))))


_shape_cache = {}


def _trees_on(leaves):
    leaves = tuple(leaves)
    if leaves in _shape_cache:
        return _shape_cache[leaves]
    if len(leaves) == 1:
        res = [leaves[0]]
    else:
        res = []
        for part in set_partitions(leaves):
            if len(part) < 2:
                continue
            part = sorted(part, key=min)
            for combo in itertools.product(*[_trees_on(sorted(b)) for b in part]):
                res.append(tuple(combo))
    _shape_cache[leaves] = res
    return res


def shapes(n, binary_only=False):
    """U(n): all rooted trees on leaves 0..n-1 whose internal nodes have >= 2 children."""
    res = _trees_on(range(n))
    if binary_only:
        res = [s for s in res if is_binary(s)]
    return list(res)


def is_binary(s):
    if isinstance(s, int):
        return True
    return len(s) == 2 and all(is_binary(c) for c in s)


def max_degree(s):
    if isinstance(s, int):
        return 0
    return max([len(s)] + [max_degree(c) for c in s])


def all_orders(s):
    """Every child ordering at every node."""
    if isinstance(s, int):
        yield s
        return
    child_variants = [list(all_orders(c)) for c in s]
    for perm in itertools.permutations(range(len(s))):
        for combo in itertools.product(*[child_variants[i] for i in perm]):
            yield tuple(combo)


def reverse_all(s):
    if isinstance(s, int):
        return s
    return tuple(reverse_all(c) for c in reversed(s))


def paths(s, prefix=()):
    """Paths (tuples of child indices) to every node in pre-order, root = ()."""
    yield prefix
    if not isinstance(s, int):
        for i, c in enumerate(s):
            for p in paths(c, prefix + (i,)):
                yield p


def at(s, path):
    for i in path:
        s = s[i]
    return s


def replace_at(s, path, new):
    if not path:
        return new
    i = path[0]
    return s[:i] + (replace_at(s[i], path[1:], new),) + s[i + 1:]


def order_variants(s):
    """as-generated, fully reversed, and each single adjacent swap (DESIGN 2.1)."""
    seen = set()
    out = []

    def add(x):
        if x not in seen:
            seen.add(x)
            out.append(x)
    add(s)
    add(reverse_all(s))
    for p in paths(s):
        nd = at(s, p)
        if isinstance(nd, int):
            continue
        for i in range(len(nd) - 1):
            sw = nd[:i] + (nd[i + 1], nd[i]) + nd[i + 2:]
            add(replace_at(s, p, sw))
    return out


def with_unifurcations(s, max_insertions=1, chain_lengths=(1,)):
    """Insert chains of out-degree-one nodes above nodes of `s`: every subset of
    at most `max_insertions` nodes (including the root), each chain length."""
    plist = list(paths(s))
    out = []
    for k in range(1, max_insertions + 1):
        for sub in itertools.combinations(plist, k):
            for lens in itertools.product(chain_lengths, repeat=k):
                t = s
                # insert deepest-first so earlier paths stay valid
                for p, L in sorted(zip(sub, lens), key=lambda x: (-len(x[0]), x[0]), reverse=False):
                    nd = at(t, p)
                    for _ in range(L):
                        nd = (nd,)
                    t = replace_at(t, p, nd)
                out.append(t)
    return out


def strip_unifurcations(s):
    if isinstance(s, int):
        return s
    if len(s) == 1:
        return strip_unifurcations(s[0])
    return tuple(strip_unifurcations(c) for c in s)


# ---------------------------------------------------------------------------
# unrooted re-drawings

def _to_graph(s):
    """shape -> (adjacency dict, leaf label dict, root id).  Unifurcations kept."""
    adj = {}
    leaf = {}
    counter = [0]

    def rec(x, parent):
        i = counter[0]
        counter[0] += 1
        adj[i] = []
        if parent is not None:
            adj[i].append(parent)
            adj[parent].append(i)
        if isinstance(x, int):
            leaf[i] = x
        else:
            for c in x:
                rec(c, i)
        return i
    root = rec(s, None)
    return adj, leaf, root


def _draw(adj, leaf, v, parent):
    if v in leaf:
        return leaf[v]
    return tuple(_draw(adj, leaf, w, v) for w in adj[v] if w != parent)


def redrawings(s):
    """All drawings of the unrooted tree underlying clean shape `s` (no
    unifurcations): seeded at every internal node (after suppressing a degree-two
    root) and with a basal bifurcation on every edge."""
    s = strip_unifurcations(s)
    if isinstance(s, int):
        return [s]
    adj, leaf, root = _to_graph(s)
    if len(adj[root]) == 2:
        a, b = adj[root]
        adj[a] = [b if x == root else x for x in adj[a]]
        adj[b] = [a if x == root else x for x in adj[b]]
        del adj[root]
    out = []
    seen = set()

    def add(x):
        if x not in seen:
            seen.add(x)
            out.append(x)
    for v in sorted(adj):
        if v not in leaf:
            add(_draw(adj, leaf, v, None))
    done = set()
    for u in sorted(adj):
        for v in adj[u]:
            if (v, u) in done:
                continue
            done.add((u, v))
            add((_draw(adj, leaf, u, v), _draw(adj, leaf, v, u)))
    return out


def selftest():
    for n, c in EXPECTED_COUNTS.items():
        if n > 5:
            continue
        got = len(shapes(n))
        assert got == c, (n, got, c)
        gb = len(shapes(n, binary_only=True))
        assert gb == EXPECTED_BINARY[n], (n, gb)
        assert len(set(shapes(n))) == got
    # all orders of ((0,1),2): 2*2 = 4
    assert len(set(all_orders(((0, 1), 2)))) == 4
    assert len(set(all_orders((0, 1, 2)))) == 6
    # redrawings of a 4-leaf binary tree: 2 internal nodes + 5 edges
    r = redrawings(((0, 1), (2, 3)))
    assert len(r) == 7, len(r)
    u = with_unifurcations(((0, 1), 2), 1, (1,))
    assert len(u) == 5
    return True


if __name__ == "__main__":
    selftest()
    print("universe ok", [len(shapes(n)) for n in range(1, 7)])
