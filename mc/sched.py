"""E3 SCHED: a deterministic cooperative scheduler that replaces `multiprocessing`
for the real SumTrees master/worker code (DESIGN 2.3, C06 B).

Every queue operation of every scheduled thread is a *scheduling point*: the thread
announces the operation it is about to perform and parks; the explorer decides who
runs next.  Only the thread holding the baton runs.  Queues pickle on put and unpickle
on get, so every result crosses the "process boundary" as a separate object graph.
"""
import pickle
import queue as _queue
import threading


class SchedAbort(BaseException):
    pass


class Deadlock(Exception):
    pass


class ReplayMismatch(Exception):
    pass


class STask(object):
    def __init__(self, sched, tid, name, fn):
        self.sched = sched
        self.tid = tid
        self.name = name
        self.fn = fn
        self.sem = threading.Semaphore(0)
        self.pending = None      # (kind, queue name) while parked at a scheduling point
        self.finished = False
        self.error = None
        self.result = None
        self.answer = None       # environment answer chosen for the pending op (e.g. "spurious-empty")
        self.thread = threading.Thread(target=self._main, name=name, daemon=True)

    def _main(self):
        self.sem.acquire()
        try:
            if self.sched.aborting:
                raise SchedAbort()
            self.pending = None
            self.result = self.fn()
        except SchedAbort:
            pass
        except BaseException as e:  # noqa
            self.error = e
        finally:
            self.finished = True
            self.pending = None
            self.sched.ctrl.release()


class Sched(object):
    """One execution.  Tasks are created with spawn(); the explorer calls step(tid[, answer])."""

    def __init__(self):
        self.tasks = []
        self.ctrl = threading.Semaphore(0)
        self.aborting = False
        self.current = None
        self.queues = {}
        self.log = []           # executed operations: (tid, kind, queue, outcome)

    # -- called from the explorer thread -----------------------------------------
    def spawn(self, name, fn):
        t = STask(self, len(self.tasks), name, fn)
        self.tasks.append(t)
        t.thread.start()
        # a new task is parked at an implicit "start" point until first chosen
        t.pending = ("start", None)
        return t

    def enabled(self):
        out = []
        for t in self.tasks:
            if t.finished or t.pending is None:
                continue
            kind, q = t.pending
            if kind == "get" and not self.queues[q].items:
                continue
            out.append(t.tid)
        return out

    def step(self, tid, answer=None):
        t = self.tasks[tid]
        assert not t.finished and t.pending is not None, "task %d not schedulable" % tid
        t.answer = answer
        self.current = t
        t.sem.release()
        self.ctrl.acquire()
        self.current = None

    def all_finished(self):
        return all(t.finished for t in self.tasks)

    def abort(self):
        self.aborting = True
        for t in self.tasks:
            while not t.finished:
                t.sem.release()
                self.ctrl.acquire()
        for t in self.tasks:
            t.thread.join(timeout=5)

    # -- called from task threads --------------------------------------------------
    def point(self, kind, qname):
        """Announce the next operation and park until chosen.  Returns the answer."""
        t = self.current
        if t is None or threading.current_thread() is not t.thread:
            raise RuntimeError("scheduling point reached outside a scheduled task (%s %s)" % (kind, qname))
        t.pending = (kind, qname)
        self.ctrl.release()
        t.sem.acquire()
        if self.aborting:
            raise SchedAbort()
        t.pending = None
        return t.answer

    def child_spawn(self, name, fn):
        """spawn requested by a running task (Process.start)"""
        t = STask(self, len(self.tasks), name, fn)
        self.tasks.append(t)
        t.pending = ("start", None)
        t.thread.start()
        return t


class SQueue(object):
    """multiprocessing.Queue stand-in: FIFO of pickled items, scheduling point on every operation."""
    _n = [0]

    def __init__(self, sched, name=None):
        self.sched = sched
        SQueue._n[0] += 1
        self.name = name or "q%d" % (len(sched.queues))
        self.items = []
        sched.queues[self.name] = self

    def put(self, obj, block=True, timeout=None):
        s = self.sched
        if s.current is not None and threading.current_thread() is s.current.thread:
            s.point("put", self.name)
            tid = s.current.tid
        else:
            tid = -1
        self.items.append(pickle.dumps(obj, protocol=pickle.HIGHEST_PROTOCOL))
        s.log.append((tid, "put", self.name, len(self.items)))

    def get(self, block=True, timeout=None):
        s = self.sched
        s.point("get", self.name)
        if not self.items:
            raise RuntimeError("scheduler released a blocking get on an empty queue")
        data = self.items.pop(0)
        s.log.append((s.current.tid, "get", self.name, None))
        return pickle.loads(data)

    def get_nowait(self):
        s = self.sched
        answer = s.point("get_nowait", self.name)
        if answer == "spurious-empty" or not self.items:
            s.log.append((s.current.tid, "get_nowait", self.name, "Empty" if not self.items else "SpuriousEmpty"))
            raise _queue.Empty()
        data = self.items.pop(0)
        obj = pickle.loads(data)
        s.log.append((s.current.tid, "get_nowait", self.name, obj))
        return obj

    def empty(self):
        return not self.items

    def qsize(self):
        return len(self.items)

    def close(self):
        pass

    def join_thread(self):
        pass

    def cancel_join_thread(self):
        pass


class SLock(object):
    def acquire(self, *a, **k):
        return True

    def release(self):
        pass

    def __enter__(self):
        return self

    def __exit__(self, *a):
        return False


def selftest():
    s = Sched()
    q = SQueue(s, "q")
    out = []

    def prod():
        q.put(1)
        q.put(2)

    def cons():
        out.append(q.get())
        out.append(q.get())
    a = s.spawn("p", prod)
    b = s.spawn("c", cons)
    s.step(0)      # start -> parks at put
    s.step(1)      # start -> parks at get (disabled: empty)
    assert s.enabled() == [0], s.enabled()
    s.step(0)
    assert s.enabled() == [0, 1]
    s.step(1)
    s.step(0)
    assert s.tasks[0].finished
    s.step(1)
    assert s.all_finished() and out == [1, 2], out
    s.abort()
    return True


if __name__ == "__main__":
    selftest()
    print("sched ok")
